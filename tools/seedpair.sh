#!/bin/bash
# usage: tools/seedpair.sh <ID> <checks> "<needs a>" "<needs b>"  -- evaluates seeds a and b of /tmp/wt-<ID> sequentially
cd /verif
id=$1; checks=$2
head=$(git -C /repo rev-parse HEAD)
git -C /tmp/wt-$id checkout -q -- . ; git -C /tmp/wt-$id checkout -q --detach $head
cp /repo/toasty/_libtoasty.c /repo/toasty/_libtoasty.cpython-312-x86_64-linux-gnu.so /tmp/wt-$id/toasty/
tools/seedtest.py /tmp/wt-$id a $id-a --tests --checks $checks --keep --needs "$3" > /dev/shm/seed-$id-a.log 2>&1
tools/seedtest.py /tmp/wt-$id b $id-b --tests --checks $checks --keep --needs "$4" > /dev/shm/seed-$id-b.log 2>&1
