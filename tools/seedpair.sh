#!/bin/bash
# usage: [WT_PREFIX=/tmp/wt3-] [NA=c NB=d] tools/seedpair.sh <ID> <checks> "<needs a>" "<needs b>"
# evaluates seeds a and b of <WT_PREFIX><ID> sequentially and files them as seeded/<ID>-<NA>, seeded/<ID>-<NB>
cd /verif
id=$1; checks=$2
wt=${WT_PREFIX:-/tmp/wt-}$id
na=${NA:-a}; nb=${NB:-b}
head=$(git -C /repo rev-parse HEAD)
git -C $wt checkout -q -- . ; git -C $wt checkout -q --detach $head
cp /repo/toasty/_libtoasty.c /repo/toasty/_libtoasty.cpython-312-x86_64-linux-gnu.so $wt/toasty/
tools/seedtest.py $wt a $id-$na --tests --checks $checks --keep --needs "$3" > /dev/shm/seed-$id-$na.log 2>&1
tools/seedtest.py $wt b $id-$nb --tests --checks $checks --keep --needs "$4" > /dev/shm/seed-$id-$nb.log 2>&1
