#!/bin/bash
# Silence pass: every quick check with several VERIF_SEED values, from fresh processes; evidence is
# redirected (VERIF_OUT) so committed evidence is untouched.  Prints one summary line per run.
cd /verif
out=$(mktemp -d /dev/shm/verif-sweep-XXXX)
for seed in ${SEEDS:-1 2 3}; do
  for c in ${CHECKS:-C20 C18 C16 C11 C13 C15 C04 C05 C12 C08 C17 C10 C14 C02 C09 C06 C07 C03 C19 C01}; do
    res=$(VERIF_SEED=$seed VERIF_OUT=$out ./check $c --tier quick 2>&1 | grep -E "^$c tier|VIOLATION|CHECK-ERROR" | tr '\n' ' ')
    echo "seed=$seed rc=$? $res"
  done
done
rm -rf $out
