HOOK_COMMITS = []

NOTES = (
    "Interpreter /venv/bin/python; every check imports toasty from /repo's working tree (editable install). "
    "Cython is not installed in this image: edits to toasty/_libtoasty.pyx cannot be re-translated; a changed "
    "generated toasty/_libtoasty.c is recompiled with gcc by vt/build.py at the start of every check. "
    "Detection results for seeded changes are tabulated in DESIGN.md section 11."
)

_PENDING = "check not built yet at this commit (planned: DESIGN.md section 5)"

CHECKS = {
    "C20": dict(
        engine="bex",
        category="exploration",
        design_ref="5/C20",
        technique="bounded-exhaustive enumeration of selections x entry points vs direct astropy reads",
        text="Every combination of 1-3 synthetic multi-extension files (3 layouts), hdu_index in {None, scalar, every per-file list}, wcs_key in {scalar, every per-file list} and entry point (load, SimpleFitsCollection, CLI option parser, tile_fits end-to-end) is executed and compared with direct astropy reads; the space is finite and fully enumerated, which is the right level for a pure configuration-quantified lookup property.",
        note="Trusts astropy.io.fits/astropy.wcs as the oracle; selections naming table/empty HDUs are outside the property.",
    ),
}

NOT_APPLICABLE = {("C%02d" % i): _PENDING for i in range(1, 21)}
