HOOK_COMMITS = []  # no in-repo hooks

NOTES = (
    "Interpreter /venv/bin/python; every check imports toasty from /repo's working tree (editable install). "
    "Cython is not installed in this image: edits to toasty/_libtoasty.pyx cannot be re-translated; a changed "
    "generated toasty/_libtoasty.c is recompiled with gcc by vt/build.py at the start of every check. "
    "Detection results for seeded changes are tabulated in DESIGN.md section 11."
)

_PENDING = "check not built yet at this commit (planned: DESIGN.md section 5)"

_E1_NOTE = ("Trusted base: the virtual Queue/Event/Process/SoftFileLock semantics of vt/vmp.py (validated against real "
            "multiprocessing by selftest/vmp_conformance.py), fork as deep copy of Process args, timeouts firing only on an "
            "empty pipe, symmetry of identical workers (key soundness is checked on every state revisit). Bounds: <=3 workers, "
            "pyramids of depth <=3 with <=21 tiles, <=3 input images.")

CHECKS = {
    "C01": dict(
        engine="vmp+bex",
        category="model_checking",
        design_ref="5/C01",
        technique="stateful exhaustive interleaving exploration of the real parallel walk under a virtual scheduler (one history configuration deviation-bounded in the quick tier, unbounded in thorough) + exhaustive filter/apex enumeration vs reference quadtree",
        text="Every interleaving of dispatcher, queue feeders, workers and receive timeouts of the real _walk_parallel/_mp_walk_worker is explored for 60+ small pyramids (generic, TOAST, a 51-filter family covering every live-children mask incl. accepted-but-childless tiles, sub-pyramid apexes, 1-3 workers) with an invariant monitor (exactly once, only live non-leaf tiles, parent after live children) and a backward-reachability termination analysis of the state graph; the serial walk is checked on every effective depth-2 filter (17^4) and every apex against a reference quadtree. The schedule quantifier cannot be reached by tests; exhaustive exploration of small configurations is the appropriate level.",
        note=_E1_NOTE,
    ),
    "C02": dict(
        engine="vmp+bex",
        category="model_checking",
        design_ref="5/C02",
        technique="exhaustive sparse-population enumeration of serial cascades against a reference merge + stateful exhaustive interleaving exploration of the real merger",
        text="Serial: start depth 1 (all 16 leaf subsets) and 2 (512 / 1024 sparse populations, plus depth-3 chains in thorough) x {npy F32, npy U8, png RGBA, png RGB, fits F32 bottom-up (+ npy I16, npy F64)} x {no filter, filter accepting exactly the populated tiles}: after cascade_images on a fresh directory the set of parent tiles and every pixel (dtype, NaN positions, alpha) must equal an independent reference (display-orientation mosaic, 2x2 block reduction). Leaf contents are injective and asymmetric with all 16 undefined-patterns of a 2x2 block, a per-leaf undefined band and semi-transparent pixels. Parallel: the real TileMerger.walk_callback runs under the virtual scheduler with 2 workers; every terminal tree of every interleaving must equal the serial tree.",
        note=_E1_NOTE + " Float means compared to 2e-6 relative (accumulation order), undefined positions exactly. jpg not compared.",
    ),
    "C03": dict(
        engine="vmp",
        category="model_checking",
        design_ref="5/C03",
        technique="stateful exhaustive interleaving exploration of the real producer/worker stages under a virtual scheduler",
        text="The real visit_leaves, transform, multi-TAN and multi-WCS producer/worker code runs over the virtual multiprocessing layer; every interleaving of puts, feeder flushes, receives, receive timeouts, close/join_thread, the done flag and worker exits is explored per configuration; at every terminal state the processed item set must equal the serial set (itself compared with the reference quadtree), every item is delivered at most once with its own tile geometry, all workers have exited, no lock file remains; the termination analysis shows a returning continuation from every reachable state.",
        note=_E1_NOTE,
    ),
    "C04": dict(
        engine="bex",
        category="exploration",
        design_ref="5/C04",
        technique="exhaustive enumeration of all tile positions to a depth bound against an independent 3-D reference subdivision; four construction routes compared",
        text="All 4^n tiles at depths 1..7 (1..9 thorough) from generate_tiles, in both coordinate systems, are compared with an independent 3-D unit-vector reference built only from the documented layout (corners to 1e-9 rad, diagonal orientation), toast_tile_area against the reference area and summed to 4*pi per level (n<=6), children must reproduce their parent's corners and edge midpoints and areas, neighbours must share corner points (1e-12); create_single_tile, the path-filtered generator and point lookup at the reference centre must agree with enumeration for every tile to depth 4 (5) and on a deterministic deep lattice to depth 14 (20).",
        note="Reference vt/ref/toastgeom.py. Beyond the depth bound only the lattice x,y in {0,1,2^(n-1)-1,2^(n-1),2^n-2,2^n-1} is covered.",
    ),
    "C05": dict(
        engine="bex",
        category="exploration",
        design_ref="5/C05",
        technique="exhaustive per-pixel comparison of tile coordinate grids with reference deeper-tile centres for all tiles to a depth bound",
        text="For every tile at depths 1..2 (1..4) and a deep lattice to depth 10 (12), both coordinate systems (both diagonal orientations at every depth), all 65 536 pixel coordinates returned by toast_tile_get_coords are compared with the reference centres of tiles (n+8, 256x+j, 256y+i) (1e-9 rad), must lie inside the tile (half-space test) and within the latitude span of its corners; for depth-1 (and depth-2) tiles the public Python-side generator is descended eight levels (65 536 tiles each) and its tile centres must agree with the compiled grid.",
        note="The compiled helper is exercised as built: Cython is not installed, so edits to _libtoasty.pyx cannot be rebuilt (a changed generated .c is).",
    ),
    "C06": dict(
        engine="vmp+bex",
        category="model_checking",
        design_ref="5/C06",
        technique="exhaustive configuration enumeration of serial sampling against reference pixel geometry + stateful exhaustive interleaving exploration of the real sampler",
        text="Serial: depth 0..2 (3) x both coordinate systems x {png with an RGB sampler, npy F32, fits F32 bottom-up} x {clobber, update with an all-true filter, update of an earlier partial sampling by an overlapping, partly undefined one, clobbering re-sampling of an existing pyramid by a sampler undefined over whole tiles}: the set of tile files and all 65 536 pixels of every tile must equal sampler(reference pixel-centre coordinates of that tile) in display orientation (rows reversed on disk for FITS); depth 0 is the level-8 pixelisation of the whole sphere. Parallel: the real ToastSampler.visit_callback (clobber, and update mode with lock/read/write choice points) under the virtual scheduler, all interleavings, terminal tree = serial tree, no lock files.",
        note=_E1_NOTE + " Smooth float sampler compared to 2e-4 absolute; uint8 samples may differ by one count at <=6 pixels per tile. HEALPix samplers need healpy (absent). In the interleaving runs the pure coordinate function is memoised per tile.",
    ),
    "C07": dict(
        engine="bex",
        category="exploration",
        design_ref="5/C07",
        technique="bounded-exhaustive enumeration of regions x tiles with a filter-independent per-pixel soundness oracle; boundary-directed deep-tile enumeration; end-to-end differential sampling",
        text="A tile holds data iff one of its 65 536 reference pixel centres lies in the region; then the filter must accept it and every ancestor from level 1 and leave it unmodified. Boxes: 162 (1323) lat/lon boxes with origins from -3pi to 5pi, widths to 4pi and pole-touching bands x every tile to depth 3 (4) x both coordinate systems. Image footprints: a lattice of TAN images (1x1..64x64 incl. axes < 16 px, two scales, five rotations, both parities, centres on the seam, near both poles) with membership decided by the WCS, probed by the deep tiles (depth chosen so a tile spans 3 / 1 / 0.3 image pixels) containing points 0.02-0.45 pixel inside every edge and corner. Chunked maps: ragged chunk grids, per-chunk filter soundness and chunk-by-chunk vs whole-map sampling (pixels on a source-pixel boundary may resolve either way). End-to-end: sample_layer_filtered vs sample_layer directories identical.",
        note="Reference geometry vt/ref/toastgeom.py; the compiled box test is exercised as built (no Cython). WCS distortions and the continuum between lattice points are not covered; quick tier walks a fixed 1/7 stride of the footprint lattice, thorough all of it.",
    ),
    "C08": dict(
        engine="bex",
        category="exploration",
        design_ref="5/C08",
        technique="bounded-exhaustive enumeration of image sizes / sub-images / modes x formats against a reference tiling model and partition laws",
        text="Every (width, height) in 1..600 squared (1..1100 squared plus long strips to 2100 in thorough) goes through StudyTiling: layout against the reference (smallest power-of-two square, floor-centred), the rectangles of generate_populated_positions are pairwise disjoint, inside their tiles, cover exactly the image, match count_populated_positions and image_to_tile (every pixel for small images); sub-images of three parents on the tile-boundary lattice; real images of 16-100 sizes x up to 10 (mode, lossless format) pairs x both naming schemes are tiled and reassembled through the WTML URL template and compared pixel-exactly with the reference canvas (undefined outside the image, FITS rows reversed).",
        note="Reference model vt/ref/tiling.py from the statement. RGB/png cannot carry a mask: only colour inside the image is compared there.",
    ),
    "C09": dict(
        engine="vmp+bex",
        category="model_checking",
        design_ref="5/C09",
        technique="exhaustive decomposition x parity x order x format enumeration of multi-TAN tiling against tiling the pasted mosaic + interleaving exploration of the tiling stage",
        text="Mosaics 300x280, 257x300 (520x260) with a rotated TAN WCS are cut into 2-3 sub-images (cuts at 100/256/257, 10-pixel overlaps with agreeing data, 3-5 pixel NaN borders overlapping defined data of a neighbour, 3-way and L-shaped splits), stored bottom-up or top-down, stored bottom-up, top-down or mixed, in every input order, tiled to fits and npy (a 600x560 mosaic fills whole tiles): deepest-level tiles must be pixel-identical to StudyTiling.tile_image of the pasted mosaic, the ImageSet description equal, and no lock file may remain. The real multi-TAN stage with inputs sharing a tile runs under the virtual scheduler (queue, lock, read, write choice points): every terminal tree equals the serial tree.",
        note=_E1_NOTE + " Mixed-parity collections are refused by toasty up front and are outside the check; inputs share one pixel grid.",
    ),
    "C10": dict(
        engine="vmp",
        category="model_checking",
        design_ref="5/C10",
        technique="stateful exhaustive interleaving exploration of lock/read/write steps of concurrent update_image blocks",
        text="N=2..3 virtual processes run the real PyramidIO.update_image read-modify-write blocks (1-2 each, disjoint and overlapping regions, one or two tiles, both naming schemes, explicit format) over a virtual existence lock and tile-I/O layer in which lock-acquire, read, write-begin, write-end and release are choice points; all interleavings are explored. At every terminal state the tile must equal some serial order of the updates, no lock file may remain; any read or write overlapping an unfinished write of the same path is flagged at the step where it happens; deadlock and non-termination are detected on the state graph. A free-running run with real processes and the real SoftFileLock binds the lock model to reality.",
        note=_E1_NOTE + " SoftFileLock itself is modelled (existence lock), not verified.",
    ),
    "C11": dict(
        engine="bex",
        category="exploration",
        design_ref="5/C11",
        technique="exhaustive enumeration of map shapes x cells x constructed interior/boundary points x longitude shifts for each sampler variant",
        text="For the five documented variants (sky centre-0, sky zero-right, planet centre-0, planet zero-left, Galactic) and every map shape in {1,2,3,4,5,16}^2 ({1..5,7,8,16,17}^2), scalar and RGB, every cell is probed at its centre and near each edge (must return that cell) and on its corners and edges (any adjacent cell), at longitude shifts of -2,-1,0,1,3 turns, with request shapes (1,1), (3,5), (256,256); Galactic points are constructed in Galactic coordinates and converted with astropy. Result shape, periodicity and absence of index errors are checked.",
        note="The ecliptic sampler has no documented layout in the statement and is not covered.",
    ),
    "C12": dict(
        engine="bex",
        category="exploration",
        design_ref="5/C12",
        technique="exhaustive enumeration of lattice/boundary points x longitude shifts x depths x coordinate systems against reference point-in-tile and pixel-centre geometry",
        text="Every vertex of the level-4 (5) TOAST lattice - the corners, edge midpoints and centres of all coarser tiles, i.e. edges, equator diamond, seam and poles - plus a 24x13 grid and near-pole/seam points, each at longitude shifts 0, +-2pi, +4pi, is looked up at every depth 0..6 (0..8) in both coordinate systems: the returned tile must contain the point (reference half-space test, 1e-9), be nested in the previous depth's answer, equal create_single_tile of its position, and be periodic (or, on a shared edge, another containing tile); the fractional pixel position at depths 1,3,6 must be within 2 pixels of the nearest reference pixel centre for points >= 1 degree from the poles.",
        note="Continuum between lattice points not covered; shared-edge points may resolve to either tile.",
    ),
    "C13": dict(
        engine="bex",
        category="exploration",
        design_ref="5/C13",
        technique="bounded-exhaustive enumeration of filters x apexes x depths against a reference quadtree; all position pairs to a depth bound; stateful interleaving exploration of one pyramid counted, then walked and leaf-visited by worker processes under a virtual scheduler",
        text="Every effective depth-2 TOAST filter (17^4), every depth-1 filter, generic pyramids to depth 4-5 with every apex (to depth 3) and a 51-filter family with every apex are pushed through count_leaf_tiles/count_live_tiles/count_operations, visit_leaves, walk and the position generator and compared with an independent reference quadtree, the closed forms and the sub-pyramid/full differential; the position algebra is checked on every pair of positions to depth 4 (5 in thorough).",
        note="Reference model vt/ref/quadtree.py written from the documentation. Depth-3 filters exhaustive only within one level-1 quadrant (thorough).",
    ),
    "C14": dict(
        engine="vmp+bex",
        category="model_checking",
        design_ref="5/C14",
        technique="exhaustive sparse-population enumeration of FITS cascades with a data-range oracle + interleaving exploration of the parallel cascade",
        text="The C02 population family restricted to FITS F32 (F64 in thorough) tiles written by toasty itself, leaves with NaN regions and disjoint value ranges per leaf: after the serial cascade DATAMIN/DATAMAX of every tile must equal the min/max over the finite leaf pixels beneath it; Builder.cascade()+write_index_rel_wtml() must carry the root's range into ImageSet and WTML (including populations with an all-NaN leaf, which must not be stored); the parallel cascade is explored under the virtual scheduler with headers included in the terminal-tree comparison.",
        note=_E1_NOTE + " Single-precision tolerance 2e-7 relative.",
    ),
    "C15": dict(
        engine="bex",
        category="model_checking",
        design_ref="5/C15",
        technique="exhaustive pattern enumeration for buffer ops + breadth-first search over operation histories on a tile directory against a reference dict + every bounded operation sequence on one held Image object + stateful exhaustive interleaving exploration of worker processes storing tiles under a virtual scheduler",
        text="Buffers: all 8 modes x 4 slice-indexer kinds (full, sub-rectangle, negative-step rows to row 0 and inner) x all 2^6 source x 2^6 destination defined/undefined patterns for update, fill (plus pointwise integer-array indexers), clear, is_completely_masked and make_maskable_buffer against a per-pixel reference. Persistence: BFS over histories of a 9-operation alphabet (write defined A/B, partly undefined, all undefined; read default none/masked; update identity/region; stale file) to depth 3 (4) per (mode, lossless format, naming scheme) - 15 pairs x 2 - with the file-exists-iff-reference invariant and exact read-back checked after every step, also with an explicit format= differing from the pyramid default; defined float pixels include +-inf; buffers handed out for two missing tiles / nested update blocks must not alias. Thorough adds all 2^9 x 2^9 patterns on a 3x3 buffer.",
        note="Format capability table fixed from the formats' definitions. Known finding: all-zero integer tiles are stored (see known_findings.json).",
    ),
    "C16": dict(
        engine="bex",
        category="exploration",
        design_ref="5/C16",
        technique="exhaustive enumeration of a linear-WCS lattice x image sizes, every pixel compared on the sky before/after the flip",
        text="TAN (+SIN, CAR) WCS with 7 rotations, 3 scales, skew, both parities, 4 reference-pixel placements (inside, corner, two outside) and 3 reference values (RA~0, RA 359.9, near the south pole) x sizes 1x1..64x48 x {Image, ImageDescription}: parity sign negated, data rows reversed, every pixel's sky position equal to that of the row-mirrored pixel after the flip (1e-9 deg angular separation), double flip the identity, ensure_negative_parity yields -1 from both parities, idempotent and sky-preserving.",
        note="Linear WCS only (no SIP/TPV).",
    ),
    "C17": dict(
        engine="bex",
        category="model_checking",
        design_ref="5/C17",
        technique="exhaustive position x scheme x format enumeration of the URL template + BFS over tile_fits call histories + per-workflow WTML-vs-disk comparison",
        text="The WTML URL template is expanded the way a WWT client does it (independent expander) for every position to depth 4 and a boundary lattice to depth 6 (9) under both naming schemes and four formats and must equal the path PyramidIO writes to, injectively; eight (thirteen) workflow runs (tile-study png/FITS with and without cascade, tile-allsky, tile-multi-tan, pipeline process-todos with a non-square image) are checked for orphan/missing tiles, FileType and TileLevels; tile_fits is driven through every history fresh,(reuse|override)^k, k<=2 (3) in TAN (1 and 2 inputs) and TOAST mode and the returned Builder is compared attribute-by-attribute with the index_rel.wtml on disk after every call.",
        note="HiPS (Java + download) is outside the sandbox. Reuse is judged for identical repeated calls only.",
    ),
    "C18": dict(
        engine="bex",
        category="fault_enumeration",
        design_ref="5/C18",
        technique="exhaustive crash-point x torn-write x directory-order enumeration on the real publish path with a fault-injecting store",
        text="The real PipelineManager.publish runs against a LocalPipelineIo wrapped by a fault injector: every file set of 1..5 (6) files with and without index.wtml, every permutation in which os.listdir may return it, and a crash at every transfer in three torn-write modes, before the rename, or not at all; two approved images in both orders. After each crash the store invariant (index.wtml present => all other files complete; image still approved, not published; check_exists as used by refresh), the transfer order and recovery by a fault-free re-run are checked; torn transfers read only half of the source (a retry without rewinding is visible); the real refresh step is run for every listing order x crash point of a file set containing both index files.",
        note="Crash = exception out of put_item/os.rename standing for process death; torn write = strict prefix of the bytes; store = local directory.",
    ),
    "C19": dict(
        engine="vmp",
        category="model_checking",
        design_ref="5/C19",
        technique="fault enumeration (every single failing item, every item failing; error, unpicklable error, death) x stateful exhaustive interleaving exploration under a virtual scheduler",
        text="For each of the five parallel stages and each single failing item - raising RuntimeError, OSError or ValueError, or dying abruptly (SIGKILL-like, exit code -9) - all interleavings are explored: every terminal state must have the stage raise to its caller, there is no deadlock, and from every reachable state a terminal state is reachable (no waiting forever); configurations include six and ten simultaneously ready tiles (more than the done queue and a one-item pipe absorb) so that the abort path itself is exercised. An OSError while a cascade reads an existing child (EMFILE, EIO, EACCES, unreadable file) must reach the caller serially (4 children x 4 error kinds) and in parallel (explored). The serial reference behaviour (raises) is checked per configuration.",
        note=_E1_NOTE + " Single fault per run; at least two workers.",
    ),
    "C20": dict(
        engine="bex",
        category="exploration",
        design_ref="5/C20",
        technique="bounded-exhaustive enumeration of selections x entry points vs direct astropy reads",
        text="Every combination of 1-3 synthetic multi-extension files (3 layouts), hdu_index in {None, scalar, every per-file list}, wcs_key in {scalar, every per-file list} and entry point (load, SimpleFitsCollection, CLI option parser, tile_fits end-to-end) is executed and compared with direct astropy reads; the space is finite and fully enumerated, which is the right level for a pure configuration-quantified lookup property.",
        note="Trusts astropy.io.fits/astropy.wcs as the oracle; selections naming table/empty HDUs are outside the property.",
    ),
}

# additions made after the fifth wave of seeded changes (appended to the level text)
ADDENDA = {
    "C01": "Histories in one process: a parallel walk after an earlier parallel walk (state surviving a walk), including one in which the re-used position has four live children and callbacks take time - quick explores every schedule within 3 departures from the default order (bound named in the evidence), thorough within 6 and unbounded; nine of the 51 filters also run with a scheduling point inside each callback; one configuration with a foreign idle child process of the caller. Deep pyramids (depth 8-11, generic and TOAST) restricted to an apex just above the leaves; the complete depth-2 pyramid within a deviation bound in the quick tier. A depth-8 pyramid (16 384 tiles ready before any worker exists) under the default schedule, cut after 40 000 steps in quick and run to the end in thorough; filters that are not monotone along the path to a sub-pyramid apex. Filters given as callable objects whose truth value is False; a restricted pyramid whose documented depth attribute is raised afterwards. A one-worker depth-2 walk (four parents ready, a report queue of two) in the quick tier.",
    "C02": "Re-cascade history on one directory (leaves removed or made undefined between two cascades: stale parents must go); leaves of NaN and infinities; CLI and Builder entry points. Command-line and guessed-format cascades under a directory path containing dots; a cascade preceded by an input loader with non-default options; pure-black colour pixels. Half-precision colour tiles; 16-bit tiles in the quick tier with the stored type compared, not only the values. Half-precision colour pixels with NaN in a single channel. Three-level cascades over sparse chains of leaves in the quick tier (row directories of intermediate levels appear during the cascade).",
    "C03": "Transform runs with distinguishable input/output pyramid arguments. Deep pyramids (depth 9/10) under an apex; 16-leaf / 21-tile item sets and a six-image multi-TAN run within a deviation bound in the quick tier; messages switched off and a foreign child process as circumstances. Virtual process identity (pid/ppid); inputs read from FITS files through the collection loader with a blank value (feeder-pickled later than the put); a reprojection function that cannot be pickled; 16 384-leaf and 5 461-tile item sets under the default schedule to a horizon; multi-WCS into a top-down format. Segments without any data ahead of one with data (multi-WCS); one multi-extension file listed once per extension (multi-TAN). A 1 023-leaf filtered pyramid under the default schedule; one multi-TAN processor object tiling twice in a row. One filtered pyramid object counted and leaf-visited as a whole before it is restricted to a sub-pyramid and visited by two workers.",
    "C04": "Lookups near tile corners on a deep lattice to depth 26 (28); tiles held while the other coordinate system is used. The pixel lookup as a fifth route; at depths 30-40 the four children against the parent's corners and side/diagonal midpoints, relative to the tile size. Every tile shown to a library lat/lon filter before it is used; lookups with a negative longitude. The traversal of a Pyramid (made before another one for the other coordinate system) as a further route. Every ordered pair of six (eight) enumerations alive at once and consumed in turn (alternation, 1:3, 3:1, every split point). Lookups of points ON the grid (the tiles' own corner points bit for bit, edge midpoints) at the tile's level and up to three levels deeper: the tile handed back carries the corners of the position it names and touches the point.",
    "C05": "sample_layer end to end, serial and with real worker processes, npy and FITS: the stored tiles hold the coordinates the sampler received (lon + 10 lat) and must equal the deeper tiles' centres row for row. A pyramid made for one coordinate system and traversed after another was made for the other one. Tolerance of 1e-3 pixel; pole-, seam- and equator-touching tiles to depth 26 (28) with a sparse comparison against the tiles create_single_tile builds eight levels deeper; tiles obtained by point lookup and shown to a library filter first. A pixel lookup landing in the tile immediately before its grid is requested; Builder.toast_base with an explicit coordinate system contradicting the planet flag. Filtered pyramids and sub-pyramids with an apex two levels down as traversal routes.",
    "C06": "Partial RGBA updates of PNG tiles holding opaque black pixels after a tile-allsky run with --black-to-transparent in the same process; the tile-allsky command itself; a sampler undefined over whole tiles on a fresh and on an existing directory. Builder.toast_base with and without a filter; infinities in the updating sampler; colour samplers into npy/FITS pyramids. Defined but faint (alpha 128 and 1) source pixels over opaque earlier data. A night-side RGBA sampler (whole tiles pure black and opaque). A sampler that converts the coordinate arrays it is handed in place, sampled twice in one process; sampling with a format= override over stale tiles of that format next to a file of the default format.",
    "C07": "Footprints with the pole off-centre along the long axis of non-square images; one filter object used with both coordinate systems in turn. Long thin strips bending around a pole just outside the image; the Builder entry point end to end. A cut-out with an equal WCS filtered earlier in the process; coarse maps cut in thirds and fifths. FITS pyramids in the filtered-versus-unfiltered end-to-end comparison. Images whose values are exactly zero, or of both signs, end to end. The per-chunk (filter, sampler) pairs of a chunked map all obtained first and then sampled in turn, or last chunk first.",
    "C08": "Re-tiling over a complete earlier tiling with an image undefined over a whole tile; parent tiling immutable under compute_for_subimage; blocks of infinities; full I32 range. Whole images and sub-tilings through Builder.prepare/execute_study_tiling; one StudyTiling object re-used for a second image of a wider mode. The thumbnail-first order of the tile-study command on PIL-backed images, including sizes of exactly the thumbnail's aspect ratio. Tilings and sub-tilings sent through pickle / deepcopy; PIL-backed images whose parity was flipped before tiling. Image objects labelled with another default format than the pyramid they are tiled into (other row order included): the pyramid's format decides what is written.",
    "C09": "DATAMIN/DATAMAX cards of the deepest tiles compared between the two routes; inputs read from FITS files with blank borders marked by --blankval values 0.0, -999 and 0; mixed-parity collections with CD-matrix headers. Inputs contained in other inputs (every order); the serial route without a batch environment on a mosaic whose outer tile columns receive only undefined pixels. The multi-TAN stage fed from FITS files with a blank value under the scheduler; --blankval given as text. Three inputs over four tile columns where one tile receives only the undefined border of one input and data from two others; one multi-extension file listed once per extension. A decomposition with an input that has no defined pixel; inputs written to FITS files and read through toasty's SimpleFitsCollection. Inputs with an undefined band on one side only (top, bottom, left or right), a little thicker than the share of the mosaic held by the outermost tile row / column.",
    "C10": "Updaters contributing no defined pixel, and the non-clobbering TOAST sampler as an updater (whole-tile and partial coverage); file removals are part of the explored state. Tile positions whose digits run together to one string, one updater having touched the partner tile first; the parallel multi-TAN stage itself (lock markers must not be removed by another process). time.sleep, os.open, os.replace and os.rename are scheduling points and the scratch directory listing is part of the state, so a home-made marker-file lock is explored like the library's. filelock.FileLock virtualised as an OS-level lock and multiprocessing.parent_process per virtual process (a lock class chosen by process role is explorable); the top-level process updating alongside its children; the lock file named for a tile compared between independently started interpreters with different string-hash salts. filelock's removal of a non-empty ('unparsable') lock marker by a waiter as a timeout-class action; lock identity compared across interpreters with their own TMPDIR and a symlinked spelling of the pyramid path. Updates given up half-way (the body of the `with` block raises) next to successful ones, on tiles that do not exist yet: they contribute nothing and take nothing away. An update whose write-back fails before anything is written (disk full), likewise. The read of the existing tile under the lock failing once with a transient error (ESTALE) and the updater retrying: the failed attempt leaves the tile as it was.",
    "C11": "Second sampler kept alive between requests; consecutive requests of one shape with equal end points; read-only request arrays, which must come back unchanged. Axis lengths at the limits of the narrow integer types (127-129, 255-257; thorough 32767-32769, 65535, 65536); 1-D and large requests (300x300, 70001 points), every element judged. Maps in big-endian byte order and several widths, three samplers built from one map array answering in turn (the map must stay unchanged), requests in Fortran / transposed / mixed memory layout. Results of earlier requests kept and compared after later requests; whole-radian coordinates as int64 / int32 / float32 / read-only arrays against the layout formula. A result of the wrong shape is a violation in every request family (small colour maps of 1-4 rows are part of the map shapes).",
    "C12": "A lookup in the other coordinate system immediately before each judged one; deep descents to depth 14/20/23/24 with a tolerance of 1e-3 tile widths plus the double-precision resolution of a tile side; pixel clause at 2-3 turns. 384 points 1-3 degrees from the poles near the quadrant meridians for the pixel clause. Sub-ulp negative, denormal and signed-zero longitudes; points within 1e-6 to 1e-9 rad of the poles (tile clause). Coordinates given as Python / numpy integers, 0-d arrays and 32-bit floats; queries that are bit for bit the centre of a pixel.",
    "C13": "One-instance histories (count, restrict, count again; a refused subpyramid() then further use); geometry of the tiles handed to visit_leaves, both coordinate systems. Deep pyramids (depth 8-12) under apexes 0-2 levels above the leaves; a pyramid traversed after another one was made for the other coordinate system. A traversal whose callback asks the same pyramid for its counts; toast.count_tiles_matching_filter; filters not monotone along the apex path. Falsy callable filters; a restricted pyramid one level deeper (depth attribute changed). One pyramid object counted, then walked and leaf-visited by two worker processes in both orders (stateful exploration; deviation bound 3 in the quick tier); children lists mutated by the caller between two questions.",
    "C14": "One Builder cascading three times while the base layer's range widens and narrows; an all-NaN leaf file saved through Image.save right after a tile of another pyramid; constant leaves; multi-image TOAST FITS tiling. Data of magnitude 1e-9; a pyramid mixing float64 and float32 leaves. A leaf written through another PyramidIO between two cascades of one Builder. A leaf re-written with unchanged 2x2 block means and a far wider range, cascaded again; the depth-3 pyramid cascaded in pieces through sub-pyramids. Leaves holding integer pixels (int16, int32, uint8), whose range cards FITS writes as integers.",
    "C15": "Histories preceded by loading an input image through the command-line loader with every option away from its default; explicit format= differing from the pyramid default; infinities as defined values. Every sequence of up to 3 (4) operations on ONE buffer object with is_completely_masked and write_image judged after each step. An update that leaves the tile entirely undefined (earlier file must go); source pixels fainter than the destination. Rectangles starting at the origin and one pixel short of covering a dirty buffer; write_image(mode=RGB) of an entirely transparent tile. Every sequence of up to 4 (5) operations {write, clear, fill, partial fill, partial update, view as PIL / array} on ONE caller-held Image object, the tile read back after every write; two or three worker processes of one leaf visit storing defined and entirely undefined tiles of one pyramid, with file creation and directory removal as scheduling points.",
    "C16": "ensure/flip/ensure histories, PIL-backed images, exactly-zero matrix entries, a WCS instance shared by two images. Latitude-first world axes; one WCS instance shared by objects of three different heights, each flipped. A WCS object carrying the array size of another file; pixel scales of 0.1 mas and 7 micro-arcseconds; sky positions compared to a thousandth of a pixel. Triangular matrices with exact zeros in CD and CDELT+PC form; non-default LONPOLE / LATPOLE.",
    "C17": "Pipeline with the LXY scheme and a single-tile image; a faulted first call followed by reuse of the directory. Override after a deeper pyramid of a changed input (TAN and TOAST). tile_fits with every default (output directory derived from the input name, method detected); the Builder study route into pyramids whose format differs from the image's own. tile_fits with two worker processes (fresh and reused). The tile-wwtl workflow with JPEG and PNG layers. Histories that re-tile the directory from ANOTHER input with override=True and then reuse it (alphabet fresh / reuse / override / override-other; single-input TAN histories four calls deep in the quick tier, the search split over processes by the second call).",
    "C18": "Recovery on the same manager object as well as a fresh one; OSError raised inside the store's own copy. Two fault families: process death (not catchable) and transfer errors (OSError the code may catch), judged by the state left behind. Process death inside the store's own copy, followed by a re-run. A zero-length file in the file set.",
    "C19": "A foreign idle child process of the caller while a walk worker fails or is killed (multiprocessing.active_children virtualised); a six-image multi-TAN run failing on the first image (more images than queue and workers absorb); read faults inside the cascade. Messages switched off for the process as a circumstance of every stage. One failing item per stage explored a second time in a child interpreter started with -O; a 16-leaf visit whose dispatcher finds the queue full after a worker died. Five inputs with a persistent failure (multi-WCS); a depth-3 transform with two workers failing on an early tile. Every item failing with more items than the bounded work queue holds, and with a pipe that holds one item; an error object that cannot be pickled. An input image that cannot be LOADED: the collection raises in the dispatching process between two hand-offs while workers are alive (multi-TAN and multi-WCS, every position of the bad input). A one-worker visit of 256 leaves that all fail (a child's sys.exit(n) is seen as n & 0xFF).",
    "C20": "The `toasty view --tile-only` and `toasty tile-multi-tan` commands; file names whose sort order is the reverse of the input order; cubes and repeated paths. Two-digit HDU indices in per-file lists; a 2-D HDU whose alternate WCS declares a virtual third axis. The same collection inspected again after its descriptions and images were flipped by a consumer. End-relative scalar indices over files of different lengths; index 0 on files whose primary HDU is empty (must be refused, not replaced by another HDU).",
}

NOT_APPLICABLE = {("C%02d" % i): _PENDING for i in range(1, 21)}
