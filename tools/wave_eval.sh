#!/bin/bash
# usage: WT_PREFIX=/tmp/wt10- LETTER=q [JOBS=3] tools/wave_eval.sh C01 C02 ...   (variant a of each worktree)
# evaluates each seed (demo clean/patched, stock suite, own check) and files it as seeded/<ID>-<LETTER>
cd /verif
one() {
  id=$1; wt=${WT_PREFIX}$id
  git -C $wt checkout -q -- . 2>/dev/null
  needs=$(sed -n 1p $wt/_seeded/a/notes.md 2>/dev/null | sed 's/^#* *//' | cut -c1-240)
  tools/seedtest.py $wt a $id-${LETTER} --tests --checks ${CHECKS:-$id} --keep --needs "$needs" > /dev/shm/seed-$id-${LETTER}.log 2>&1
  /venv/bin/python - $id-${LETTER} <<'P'
import json,sys
m=json.load(open('/verif/seeded/%s/meta.json'%sys.argv[1]))
print(sys.argv[1], 'demo', m['demo'], '|', m['stock_tests_with_patch'], '|', {k:(v['rc'],v['violations'],v['wall_s'],v['signatures'][:3]) for k,v in m['checks'].items()})
P
}
export -f one; export WT_PREFIX LETTER CHECKS
printf '%s\n' "$@" | xargs -P ${JOBS:-3} -I{} bash -c 'one {}'
