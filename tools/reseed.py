#!/venv/bin/python
"""Re-evaluate stored seeded changes against the current checks (regression of the detection table).

usage: tools/reseed.py [--jobs N] [--all-owner | NAME[:CHECK,CHECK] ...]

For each seed a scratch git worktree of /repo (under /tmp, removed afterwards) gets seeded/<NAME>/patch.diff
applied; the named checks (default: the check of the seed's own property) run with VERIF_REPO pointing at
it and VERIF_OUT at a scratch directory, so neither /repo nor committed evidence is touched.  The result is
merged into seeded/<NAME>/meta.json ("checks") and one line per (seed, check) is printed.
Exit status 1 if some seed is reported by none of the checks run for it.
"""
import argparse
import json
import os
import shutil
import subprocess
import sys
import tempfile
import time
from concurrent.futures import ThreadPoolExecutor

VERIF = os.path.dirname(os.path.dirname(os.path.abspath(__file__)))
REPO = os.environ.get("VERIF_BASE_REPO", "/repo")


def sh(cmd, cwd=None, env=None, timeout=7200):
    e = dict(os.environ)
    e.update(env or {})
    p = subprocess.run(cmd, cwd=cwd, env=e, stdout=subprocess.PIPE, stderr=subprocess.STDOUT, text=True, timeout=timeout)
    return p.returncode, p.stdout


def one(spec):
    name, checks = spec
    sd = os.path.join(VERIF, "seeded", name)
    meta_p = os.path.join(sd, "meta.json")
    meta = json.load(open(meta_p))
    checks = checks or [meta["property"]]
    wt = tempfile.mkdtemp(prefix="verif-reseed-%s-" % name, dir="/tmp")
    os.rmdir(wt)
    lines = []
    try:
        rc, out = sh(["git", "-C", REPO, "worktree", "add", "-q", "--detach", wt, "HEAD"])
        if rc:
            return name, ["%s: cannot create worktree: %s" % (name, out.strip()[-200:])], False
        for f in os.listdir(os.path.join(REPO, "toasty")):
            if f.startswith("_libtoasty") and (f.endswith(".so") or f.endswith(".c")):
                shutil.copy(os.path.join(REPO, "toasty", f), os.path.join(wt, "toasty", f))
        rc, out = sh(["git", "apply", os.path.join(sd, "patch.diff")], cwd=wt)
        if rc:
            return name, ["%s: patch does not apply to the current /repo HEAD: %s" % (name, out.strip()[-200:])], False
        caught = False
        for c in checks:
            outdir = tempfile.mkdtemp(prefix="verif-reseed-out-", dir="/dev/shm")
            t = time.time()
            rc, out = sh([os.path.join(VERIF, "check"), c, "--tier", "quick"], cwd=VERIF, env={"VERIF_REPO": wt, "VERIF_OUT": outdir})
            dt = time.time() - t
            shutil.rmtree(outdir, ignore_errors=True)
            sigs = [l.strip() for l in out.splitlines() if l.strip().startswith("signature:")]
            nv = sum(1 for l in out.splitlines() if l.startswith("VIOLATION"))
            meta.setdefault("checks", {})[c] = {"rc": rc, "violations": nv, "signatures": sigs[:8], "wall_s": round(dt, 1), "tier": "quick"}
            meta.setdefault("what_was_run", []).append("re-evaluation: ./check %s --tier quick against the patched tree: rc=%d, %d violation(s) (%.0fs)" % (c, rc, nv, dt))
            caught = caught or rc == 1
            lines.append("%s %s rc=%d violations=%d %s (%.0fs)" % (name, c, rc, nv, "; ".join(s.replace("signature: ", "") for s in sigs[:3]), dt))
        json.dump(meta, open(meta_p, "w"), indent=1)
        return name, lines, caught
    finally:
        sh(["git", "-C", REPO, "worktree", "remove", "--force", wt])
        shutil.rmtree(wt, ignore_errors=True)


def main():
    ap = argparse.ArgumentParser()
    ap.add_argument("--jobs", type=int, default=3)
    ap.add_argument("--all-owner", action="store_true", help="every stored seed against the check of its own property")
    ap.add_argument("seeds", nargs="*")
    a = ap.parse_args()
    specs = []
    if a.all_owner:
        for n in sorted(os.listdir(os.path.join(VERIF, "seeded"))):
            if os.path.exists(os.path.join(VERIF, "seeded", n, "patch.diff")):
                specs.append((n, None))
    for s in a.seeds:
        n, _, cs = s.partition(":")
        specs.append((n, [c for c in cs.split(",") if c] or None))
    missed = []
    with ThreadPoolExecutor(max_workers=a.jobs) as ex:
        for name, lines, caught in ex.map(one, specs):
            for l in lines:
                print(l, flush=True)
            if not caught:
                missed.append(name)
    print("re-evaluated %d seed(s); not reported by the checks run: %s" % (len(specs), ", ".join(missed) or "none"))
    return 1 if missed else 0


if __name__ == "__main__":
    sys.exit(main())
