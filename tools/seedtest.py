#!/venv/bin/python
"""Evaluate a seeded change produced by a sub-agent.

usage: tools/seedtest.py <worktree> <variant a|b> <name> [--tests] [--checks C01,C13] [--keep]

Steps (all in the scratch worktree, never in /repo): demo on the clean tree (must pass),
apply the patch, demo (must fail), optionally the stock test-suite (must pass), then the
listed checks with VERIF_REPO pointing at the patched worktree and VERIF_OUT at a scratch
directory (so committed evidence is untouched); finally restore the worktree. With --keep
the change is filed under /verif/seeded/<name>/ with meta.json.
"""
import argparse
import json
import os
import shutil
import subprocess
import sys
import tempfile
import time

VERIF = os.path.dirname(os.path.dirname(os.path.abspath(__file__)))
TESTCMD = [
    "/venv/bin/python", "-m", "pytest", "-q", "-p", "no:cacheprovider", "--timeout=900",
    "--deselect", "toasty/tests/test_avm.py::TestAvm::test_check_cli_good",
    "--deselect", "toasty/tests/test_study.py::TestStudy::test_avm",
    "--deselect", "toasty/tests/test_study.py::TestStudy::test_avm_from",
]


def sh(cmd, cwd, env=None, timeout=3600):
    e = dict(os.environ)
    e.update(env or {})
    t = time.time()
    p = subprocess.run(cmd, cwd=cwd, env=e, stdout=subprocess.PIPE, stderr=subprocess.STDOUT, text=True, timeout=timeout)
    return p.returncode, p.stdout, time.time() - t


def main():
    ap = argparse.ArgumentParser()
    ap.add_argument("wt")
    ap.add_argument("variant")
    ap.add_argument("name")
    ap.add_argument("--tests", action="store_true")
    ap.add_argument("--checks", default="")
    ap.add_argument("--tier", default="quick")
    ap.add_argument("--keep", action="store_true")
    ap.add_argument("--property", default=None)
    ap.add_argument("--needs", default="")
    a = ap.parse_args()
    sd = os.path.join(a.wt, "_seeded", a.variant)
    patch = os.path.join(sd, "patch.diff")
    demo = os.path.join(sd, "demo.py")
    res = {"name": a.name, "worktree": a.wt, "variant": a.variant, "ran": []}
    env = {"PYTHONPATH": a.wt, "TOASTY_ROOT": a.wt, "PYTHONDONTWRITEBYTECODE": "1"}
    sh(["git", "checkout", "--", "."], a.wt)
    rc, out, dt = sh(["/venv/bin/python", demo], a.wt, env, 600)
    res["demo_clean_rc"] = rc
    res["ran"].append("demo on clean worktree: rc=%d (%.0fs)" % (rc, dt))
    rc, out, _ = sh(["git", "apply", patch], a.wt)
    if rc != 0:
        print("patch does not apply:", out)
        return 2
    try:
        rc, out, dt = sh(["/venv/bin/python", demo], a.wt, env, 600)
        res["demo_patched_rc"] = rc
        res["demo_patched_tail"] = out[-600:]
        res["ran"].append("demo with patch: rc=%d (%.0fs)" % (rc, dt))
        if a.tests:
            rc, out, dt = sh(TESTCMD, a.wt, env, 1800)
            last = [l for l in out.strip().splitlines() if "passed" in l or "failed" in l][-1:]
            res["tests_rc"] = rc
            res["tests_summary"] = last[0] if last else out[-300:]
            res["ran"].append("stock test-suite with patch: rc=%d %s (%.0fs)" % (rc, res["tests_summary"], dt))
        res["checks"] = {}
        for c in [c for c in a.checks.split(",") if c]:
            outdir = tempfile.mkdtemp(prefix="verif-seedout-", dir="/dev/shm")
            rc, out, dt = sh([os.path.join(VERIF, "check"), c, "--tier", a.tier], VERIF, {"VERIF_REPO": a.wt, "VERIF_OUT": outdir}, 7200)
            sigs = [l.strip() for l in out.splitlines() if l.strip().startswith("signature:")]
            res["checks"][c] = {"rc": rc, "violations": sum(1 for l in out.splitlines() if l.startswith("VIOLATION")), "signatures": sigs[:8], "wall_s": round(dt, 1), "tier": a.tier}
            res["ran"].append("./check %s --tier %s against the patched tree: rc=%d, %d violation(s) (%.0fs)" % (c, a.tier, rc, res["checks"][c]["violations"], dt))
            shutil.rmtree(outdir, ignore_errors=True)
    finally:
        sh(["git", "checkout", "--", "."], a.wt)
    print(json.dumps(res, indent=1))
    if a.keep:
        dst = os.path.join(VERIF, "seeded", a.name)
        os.makedirs(dst, exist_ok=True)
        shutil.copy(patch, os.path.join(dst, "patch.diff"))
        shutil.copy(demo, os.path.join(dst, "demo.py"))
        if os.path.exists(os.path.join(sd, "notes.md")):
            shutil.copy(os.path.join(sd, "notes.md"), os.path.join(dst, "notes.md"))
        meta = {
            "property": a.property or a.name.split("-")[0],
            "needs_to_manifest": a.needs,
            "demo": {"clean_rc": res.get("demo_clean_rc"), "patched_rc": res.get("demo_patched_rc")},
            "stock_tests_with_patch": res.get("tests_summary"),
            "checks": res.get("checks"),
            "what_was_run": res["ran"],
        }
        mp = os.path.join(dst, "meta.json")
        if os.path.exists(mp):
            old = json.load(open(mp))
            for k in ("stock_tests_with_patch", "needs_to_manifest"):
                if not meta.get(k):
                    meta[k] = old.get(k)
            oc = old.get("checks") or {}
            oc.update(meta["checks"] or {})
            meta["checks"] = oc
            meta["what_was_run"] = old.get("what_was_run", []) + meta["what_was_run"]
        json.dump(meta, open(mp, "w"), indent=1)
    return 0


if __name__ == "__main__":
    sys.exit(main())
