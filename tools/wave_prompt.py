#!/venv/bin/python
"""Print the prompt given to a seeding sub-agent for one property: the property's text, its scratch worktree,
and the one-line titles of the changes earlier waves produced (so that it picks a different mechanism).
Nothing about the checks is included.  usage: tools/wave_prompt.py C07 /tmp/wt10-C07 [variants]"""
import glob, json, os, sys
V = os.path.dirname(os.path.dirname(os.path.abspath(__file__)))
pid, wt = sys.argv[1], sys.argv[2]
variants = sys.argv[3] if len(sys.argv) > 3 else "a"
prop = [json.loads(l) for l in open(os.path.join(V, "properties.jsonl")) if json.loads(l)["id"] == pid][0]
earlier = []
for d in sorted(glob.glob(os.path.join(V, "seeded", pid + "-*"))):
    try:
        t = open(os.path.join(d, "notes.md")).readline().strip().lstrip("# ").strip()
    except OSError:
        t = ""
    m = json.load(open(os.path.join(d, "meta.json")))
    earlier.append("- %s (needs: %s)" % (t[:220], str(m.get("needs_to_manifest", ""))[:220]))
n = len(variants)
print("""You are helping to evaluate a verification harness for the Python library WorldWideTelescope/toasty. Your job is to write
%(n)s realistic, subtle defect%(s)s ("seeded change%(s)s") that break%(s2)s ONE stated semantic property of the library while the
library still imports and its whole existing test suite still passes.

Your scratch git worktree of the repository is %(wt)s (detached HEAD of the current code; the compiled helper module is already in
place; work ONLY there, never touch /repo or /verif and do not read /verif). Interpreter: /venv/bin/python (has all dependencies).
To run code against your worktree use:  cd %(wt)s && PYTHONPATH=%(wt)s /venv/bin/python your_script.py
Stock test suite (must still pass WITH your change, run it at least twice because some defects are flaky):
  cd %(wt)s && PYTHONPATH=%(wt)s /venv/bin/python -m pytest -q -p no:cacheprovider --timeout=900 --deselect toasty/tests/test_avm.py::TestAvm::test_check_cli_good --deselect toasty/tests/test_study.py::TestStudy::test_avm --deselect toasty/tests/test_study.py::TestStudy::test_avm_from
Never use `git stash` (the stash is shared by every worktree of the repository and other agents are working in theirs): to switch between the clean and the changed tree use `git diff > file`, `git checkout -- .`, `git apply file`.
There is no network. Cython is not installed: do not edit toasty/_libtoasty.pyx. Only edit files under toasty/ (not the tests).

THE PROPERTY (%(id)s): %(title)s

Statement: %(statement)s

Quantified over: %(qtext)s

Why the existing tests cannot settle it: %(why)s

Where it lives in the code (anchors): %(anchors)s

WHAT TO PRODUCE, for each variant v in {%(vlist)s}, in the directory %(wt)s/_seeded/<v>/ :
  patch.diff  - `git diff` of your change against the worktree HEAD (only files under toasty/; must apply with `git apply` to a clean worktree)
  demo.py     - a small standalone program that exits 0 on the unchanged code and exits non-zero (assertion / exception / detected hang with
                a timeout of its own, at most ~60 s) WITH the change; it must be deterministic (if the defect needs a particular
                interleaving, force it: e.g. substitute small delays / events, or drive the internal functions directly), must not need the
                network, must write only under a tempfile directory, and is run as `cd %(wt)s && PYTHONPATH=%(wt)s /venv/bin/python _seeded/<v>/demo.py`
  notes.md    - first line: a one-line title of the change; then: what the change is, why the property is broken, and what SPECIFIC
                circumstance is needed for it to manifest.
After writing the files of a variant, restore the worktree (`git checkout -- .`) so the worktree is clean at the end; verify that
demo.py exits 0 on the clean worktree and non-zero after `git apply _seeded/<v>/patch.diff`, and that the stock suite passes with the
patch applied (twice). Do not leave the patch applied.

REQUIREMENTS ON THE CHANGE: it must look like something a maintainer could plausibly commit (a refactoring, an optimisation, a cache, a
"simplification", an off-by-one, a changed default, a reordered pair of statements, an error path handled "more gracefully"), it must
really violate the property as stated (not merely change an undocumented detail), and it must need something SPECIFIC to manifest - a
particular interleaving of processes, a fault or crash at a particular point, a multi-step sequence of operations on the same objects /
directory, an unusual but legal input or option combination, state left over from an earlier call in the same process, or two
cooperating edits that each look fine alone. Changes that ordinary use would expose at once are not wanted. Do not only delete a check
or stub out a function. Prefer parts of the code and kinds of circumstance that the earlier changes listed below did NOT use: read the
code the anchors point at AND the code around it (callers, helpers, CLI entry points, other modules that reach the same state) and
look for a fresh mechanism.

Changes earlier rounds already produced for this property (do NOT repeat these mechanisms):
%(earlier)s

Finish by replying with: for each variant, the title, the files touched, the circumstance needed, and the exit codes you observed
(demo clean / demo patched / stock suite with patch).""" % dict(
    n={1: "one", 2: "two"}[n], s="" if n == 1 else "s", s2="s" if n == 1 else "", wt=wt, id=pid, title=prop["title"],
    statement=prop["statement"], qtext=prop["quantifier"]["text"] + " [" + ", ".join(prop["quantifier"]["over"]) + "]",
    why=prop["why_tests_cant"], anchors=json.dumps(prop["anchors"]), vlist=", ".join(variants), earlier="\n".join(earlier)))
