#!/opt/veriftools/pyvenv/bin/python
"""Regenerate MANIFEST.json from the table below (keeps it schema-valid at all times)."""
import json
import os
import sys

HERE = os.path.dirname(os.path.dirname(os.path.abspath(__file__)))
sys.path.insert(0, HERE)
from tools.manifest_table import CHECKS, NOT_APPLICABLE, NOTES, HOOK_COMMITS, ADDENDA  # noqa

ALL = ["C%02d" % i for i in range(1, 21)]


def main():
    checks = []
    for pid in ALL:
        if pid not in CHECKS:
            continue
        c = CHECKS[pid]
        checks.append(
            {
                "property_id": pid,
                "quick_cmd": "./check %s --tier quick" % pid,
                "thorough_cmd": "./check %s --tier thorough" % pid,
                "evidence_file": "/verif/evidence/%s.json" % pid,
                "replay_cmd_template": "./check %s --replay {path}" % pid,
                "engine": c["engine"],
                "level_claimed": {"category": c["category"], "text": c["text"] + (" Later additions: " + ADDENDA[pid] if pid in ADDENDA else ""), "design_ref": c["design_ref"]},
                "level_note": c["note"],
                "technique": c["technique"],
            }
        )
    na = [{"property_id": p, "reason": NOT_APPLICABLE[p]} for p in ALL if p not in CHECKS]
    man = {
        "version": 1,
        "setup_cmd": "./setup.sh",
        "hooks": {
            "guard": "TOASTY_VERIF",
            "enable": "no in-repo hooks: the virtual multiprocessing/filelock layer and I/O wrappers are substituted from outside at run time (see DESIGN.md section 2); the guard variable is reserved and unused",
            "baseline_off_cmd": "cd /repo && /venv/bin/python -m pytest -ra -q -p no:cacheprovider --timeout=900 --continue-on-collection-errors",
            "source_commits": HOOK_COMMITS,
            "add_only": True,
        },
        "engines": [
            {
                "name": "vmp",
                "path": "vt/vmp.py",
                "serves_properties": [p for p in ALL if p in CHECKS and "vmp" in CHECKS[p]["engine"]],
                "kind_free_text": "stateful exhaustive exploration of toasty's real parallel stages under a virtual multiprocessing/filelock layer with a controlled scheduler (threads + baton), state hashing, backward-reachability termination analysis",
            },
            {
                "name": "bex",
                "path": "vt/",
                "serves_properties": [p for p in ALL if p in CHECKS and "bex" in CHECKS[p]["engine"]],
                "kind_free_text": "bounded-exhaustive enumeration of inputs / configurations / operation histories / crash points against independent reference models (vt/ref)",
            },
        ],
        "checks": checks,
        "not_applicable": na,
        "notes": NOTES,
    }
    with open(os.path.join(HERE, "MANIFEST.json"), "w") as f:
        json.dump(man, f, indent=1)
    import jsonschema  # noqa

    jsonschema.validate(man, json.load(open("/root/.vp/MANIFEST.schema.json")))
    print("MANIFEST.json written: %d checks, %d not_applicable" % (len(checks), len(na)))


if __name__ == "__main__":
    main()
