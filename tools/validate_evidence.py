#!/opt/veriftools/pyvenv/bin/python
import json, sys, glob, jsonschema
s = json.load(open('/root/.vp/EVIDENCE.schema.json'))
bad = 0
for p in sorted(glob.glob('/verif/evidence/*.json')):
    try:
        jsonschema.validate(json.load(open(p)), s)
        print('ok ', p)
    except Exception as e:
        bad = 1
        print('BAD', p, str(e)[:300])
sys.exit(bad)
