"""Framework self-tests run by setup.sh: virtual-vs-real multiprocessing conformance."""
import os
import subprocess
import sys

HERE = os.path.dirname(os.path.abspath(__file__))
env = dict(os.environ, PYTHONHASHSEED="0", PYTHONDONTWRITEBYTECODE="1")
rc = subprocess.call(["/venv/bin/python", "-W", "ignore", os.path.join(HERE, "vmp_conformance.py")], env=env)
sys.exit(rc)
