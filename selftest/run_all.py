"""Framework self-tests run by setup.sh: virtual-vs-real multiprocessing conformance and
state-key soundness (stateful vs unmerged exploration)."""
import os
import subprocess
import sys

HERE = os.path.dirname(os.path.abspath(__file__))
env = dict(os.environ, PYTHONHASHSEED="0", PYTHONDONTWRITEBYTECODE="1")
rc = 0
for script in ("vmp_conformance.py", "key_soundness.py"):
    rc |= subprocess.call(["/venv/bin/python", "-W", "ignore", os.path.join(HERE, script)], env=env)
sys.exit(rc)
