"""Self-test of the state keys: stateful exploration (with merging) must observe every
terminal outcome and violation that an unmerged, timeout-bounded exploration of the same
harness observes.  An unsound key (merging states with different futures) loses outcomes."""
import os
import sys

HERE = os.path.dirname(os.path.dirname(os.path.abspath(__file__)))
sys.path.insert(0, HERE)
from vt import build  # noqa

build.activate_repo()
from vt import stages  # noqa
from vt.explore import explore, explore_unmerged  # noqa
from checks import c10  # noqa


def _late_unlink_updater(pio, ups, fmt):
    """An updater that (wrongly) removes the tile file after giving up the lock: the outcome depends on
    whether the other updater wrote in between, so the file system must be part of the state key."""
    import os as _os
    from toasty.pyramid import Pos

    c10.updater(pio, ups, fmt)
    if ups and ups[0][2] is None:
        try:
            _os.unlink(pio.tile_path(Pos(*ups[0][0]), format=fmt, makedirs=False))
        except OSError:
            pass


class LateUnlink(c10.UpdateHarness):
    def fresh(self):
        import multiprocessing
        import tempfile
        from toasty.pyramid import PyramidIO
        from vt.fixtures import scratch_root
        from vt.monitors import Monitor

        root = tempfile.mkdtemp(prefix="verif-ks-", dir=scratch_root())
        pio = PyramidIO(root, scheme=self.scheme, default_format=self.default_format)
        procs, fmt = self.procs, self.fmt

        def main():
            ws = []
            for ups in procs:
                w = multiprocessing.Process(target=_late_unlink_updater, args=(pio, ups, fmt))
                w.start()
                ws.append(w)
            for w in ws:
                w.join()
            return [w.exitcode for w in ws]

        return main, Monitor(), root


def main():
    T0 = (0, 0, 0)
    cfgs = [
        (stages.Walk(kind="generic", depth=1, W=2), 2),
        (stages.VisitLeaves(kind="generic", depth=0, W=2), 2),
        (stages.Walk(kind="generic", depth=1, W=2, fail_item=(0, 0, 0)), 1),
        (c10.UpdateHarness("2-overlap", [[(T0, c10.R["left"], 1.0)], [(T0, c10.R["mid"], 2.0)]]), 0),
        (c10.UpdateHarness("2x2", [[(T0, c10.R["left"], 1.0), (T0, c10.R["px"], 5.0)], [(T0, c10.R["right"], 2.0)]]), 0),
        (LateUnlink("late-unlink", [[(T0, c10.R["left"], None)], [(T0, c10.R["right"], 2.0)]]), 0),
    ]
    bad = 0
    for cfg, tm in cfgs:
        r = explore(cfg)
        out_u, viol_u, n, complete = explore_unmerged(cfg, max_timeouts=tm, max_execs=6000)
        out_s = set(r.outcomes)
        viol_s = set(r.violations)
        ok = out_u <= out_s and (viol_u - {"deadlock"}) <= viol_s | {"can-wait-forever"}
        if cfg.name == "late-unlink" and "lost-update" not in viol_s:
            ok = False  # the defect planted in this scenario must be found
        print("%-60s stateful: %d states, outcomes %d | unmerged: %d executions%s, outcomes %d %s" % (cfg.name[:60], r.states, len(out_s), n, "" if complete else " (capped)", len(out_u), "ok" if ok else "MISMATCH"))
        if not ok:
            print("   unmerged-only outcomes:", sorted(out_u - out_s, key=repr)[:3], "violations:", sorted(viol_u - viol_s))
            bad += 1
    print("key soundness: %d harnesses, %d mismatches" % (len(cfgs), bad))
    return 1 if bad else 0


if __name__ == "__main__":
    sys.exit(main())
