"""Self-test of the state keys: stateful exploration (with merging) must observe every
terminal outcome and violation that an unmerged, timeout-bounded exploration of the same
harness observes.  An unsound key (merging states with different futures) loses outcomes."""
import os
import sys

HERE = os.path.dirname(os.path.dirname(os.path.abspath(__file__)))
sys.path.insert(0, HERE)
from vt import build  # noqa

build.activate_repo()
from vt import stages  # noqa
from vt.explore import explore, explore_unmerged  # noqa
from checks import c10  # noqa


def main():
    T0 = (0, 0, 0)
    cfgs = [
        (stages.Walk(kind="generic", depth=1, W=2), 2),
        (stages.VisitLeaves(kind="generic", depth=0, W=2), 2),
        (stages.Walk(kind="generic", depth=1, W=2, fail_item=(0, 0, 0)), 1),
        (c10.UpdateHarness("2-overlap", [[(T0, c10.R["left"], 1.0)], [(T0, c10.R["mid"], 2.0)]]), 0),
        (c10.UpdateHarness("2x2", [[(T0, c10.R["left"], 1.0), (T0, c10.R["px"], 5.0)], [(T0, c10.R["right"], 2.0)]]), 0),
    ]
    bad = 0
    for cfg, tm in cfgs:
        r = explore(cfg)
        out_u, viol_u, n, complete = explore_unmerged(cfg, max_timeouts=tm, max_execs=6000)
        out_s = set(r.outcomes)
        viol_s = set(r.violations)
        ok = out_u <= out_s and (viol_u - {"deadlock"}) <= viol_s | {"can-wait-forever"}
        print("%-60s stateful: %d states, outcomes %d | unmerged: %d executions%s, outcomes %d %s" % (cfg.name[:60], r.states, len(out_s), n, "" if complete else " (capped)", len(out_u), "ok" if ok else "MISMATCH"))
        if not ok:
            print("   unmerged-only outcomes:", sorted(out_u - out_s, key=repr)[:3], "violations:", sorted(viol_u - viol_s))
            bad += 1
    print("key soundness: %d harnesses, %d mismatches" % (len(cfgs), bad))
    return 1 if bad else 0


if __name__ == "__main__":
    sys.exit(main())
