"""Conformance of the virtual multiprocessing layer with real multiprocessing.

Each scenario is run once with real forked processes and once under vmp with *all*
interleavings explored; the real observation must be among the virtual observations, and
for scenarios whose outcome real multiprocessing guarantees, the virtual set must be that
single observation.
"""
import multiprocessing
import os
import queue
import sys
import time

HERE = os.path.dirname(os.path.dirname(os.path.abspath(__file__)))
sys.path.insert(0, HERE)

from vt import build  # noqa

build.activate_repo()
from vt import vmp  # noqa
from vt.explore import Harness, explore  # noqa
from vt.monitors import Monitor  # noqa


def _mp():
    import multiprocessing as mp

    return mp


# --- scenarios (parent, child...) ---------------------------------------------------------


def c_put3(q):
    for i in range(3):
        q.put(("item", i))
    q.close()
    q.join_thread()


def s_fifo(sleep):
    mp = _mp()
    q = mp.Queue()
    w = mp.Process(target=c_put3, args=(q,))
    w.start()
    got = [q.get(True) for _ in range(3)]
    w.join()
    return ("fifo", tuple(got), w.exitcode)


def s_empty_timeout(sleep):
    mp = _mp()
    q = mp.Queue()
    try:
        q.get(True, timeout=0.05)
        return "got"
    except queue.Empty:
        return "Empty"


def c_put_close_set(q, ev):
    q.put(1)
    q.close()
    q.join_thread()
    ev.set()


def s_flush_before_flag(sleep):
    """After join_thread() in the producer, the item is receivable by another process."""
    mp = _mp()
    q = mp.Queue()
    ev = mp.Event()
    w = mp.Process(target=c_put_close_set, args=(q, ev))
    w.start()
    while not ev.is_set():
        sleep(0.01)
    try:
        v = q.get(True, timeout=0.2)
    except queue.Empty:
        v = "Empty"
    w.join()
    return ("flushed", v)


def c_put2_set(q, ev):
    q.put("a")
    q.put("b")
    ev.set()


def s_bounded(sleep):
    mp = _mp()
    q = mp.Queue(maxsize=1)
    ev = mp.Event()
    w = mp.Process(target=c_put2_set, args=(q, ev))
    w.start()
    sleep(0.4)
    before = ev.is_set()  # child must still be blocked in its second put
    a = q.get(True)
    b = q.get(True)
    w.join()
    return ("bounded", before, a, b, ev.is_set())


def c_put5(q):
    for i in range(5):
        q.put(i)


def s_exit_flushes(sleep):
    mp = _mp()
    q = mp.Queue()
    w = mp.Process(target=c_put5, args=(q,))
    w.start()
    w.join()
    got = []
    for _ in range(5):
        try:
            got.append(q.get(True, timeout=1))
        except queue.Empty:
            got.append("Empty")
    return ("exit-flush", tuple(got), w.exitcode)


def c_raise():
    sys.stderr = open(os.devnull, "w")
    raise RuntimeError("child failure")


def c_ok():
    return None


def s_exitcodes(sleep):
    mp = _mp()
    a = mp.Process(target=c_raise)
    b = mp.Process(target=c_ok)
    a.start()
    b.start()
    a.join()
    b.join()
    return ("exitcodes", a.exitcode, b.exitcode)


def c_wait_forever(q):
    q.get(True)  # blocks until the process is terminated


def s_terminate(sleep):
    mp = _mp()
    q = mp.Queue()
    w = mp.Process(target=c_wait_forever, args=(q,))
    w.start()
    sleep(0.2)
    alive = w.is_alive()
    none_before = w.exitcode is None
    w.terminate()
    w.join()
    return ("terminate", alive, none_before, w.exitcode < 0, w.is_alive())


def s_event(sleep):
    mp = _mp()
    ev = mp.Event()
    a = ev.is_set()
    b = ev.wait(0.05)
    ev.set()
    return ("event", a, b, ev.is_set(), ev.wait(0.05))


def s_put_after_close(sleep):
    mp = _mp()
    q = mp.Queue()
    q.put(1)
    q.close()
    try:
        q.put(2)
        r = "accepted"
    except ValueError:
        r = "ValueError"
    q.join_thread()
    return ("put-after-close", r)


def c_consumer(q, out, ev):
    n = 0
    while True:
        done = ev.is_set()
        try:
            q.get(True, timeout=0.05)
            n += 1
        except queue.Empty:
            if done:
                break
    out.put(n)


def s_two_consumers(sleep):
    """Two consumers share a bounded queue; every item is received exactly once."""
    mp = _mp()
    q = mp.Queue(maxsize=2)
    out = mp.Queue()
    ev = mp.Event()
    ws = [mp.Process(target=c_consumer, args=(q, out, ev)) for _ in range(2)]
    for w in ws:
        w.start()
    for i in range(4):
        q.put(i)
    q.close()
    q.join_thread()
    ev.set()
    for w in ws:
        w.join()
    total = out.get(True) + out.get(True)
    return ("two-consumers", total)


SCENARIOS = [
    (s_fifo, True),
    (s_empty_timeout, True),
    (s_flush_before_flag, True),
    (s_bounded, True),
    (s_exit_flushes, True),
    (s_exitcodes, True),
    (s_terminate, True),
    (s_event, True),
    (s_put_after_close, True),
    (s_two_consumers, True),
]


class ScenarioHarness(Harness):
    def __init__(self, fn):
        self.fn = fn
        self.name = fn.__name__

    def fresh(self):
        fn = self.fn
        return (lambda: fn(lambda s: None)), Monitor(), None

    def at_terminal(self, sched, mon):
        o = sched.main().outcome
        return [], (o[0], o[1]) if o[0] == "return" else (o[0], o[1], o[2])


def main():
    bad = 0
    multiprocessing.set_start_method("fork", force=True)
    for fn, deterministic in SCENARIOS:
        real = ("return", fn(time.sleep))
        res = explore(ScenarioHarness(fn), max_states=200000)
        virt = set(res.outcomes)
        ok = real in virt and (not deterministic or len(virt) == 1) and not res.violations and res.exhaustive
        print(
            "%-22s real=%r virtual=%r states=%d executions=%d %s"
            % (fn.__name__, real[1], sorted(virt, key=repr) if len(virt) > 1 else list(virt)[0][1], res.states, res.executions, "ok" if ok else "MISMATCH")
        )
        if res.violations:
            print("   layer violations:", {k: v[0] for k, v in res.violations.items()})
        if not ok:
            bad += 1
    print("vmp conformance: %d scenarios, %d mismatches" % (len(SCENARIOS), bad))
    return 1 if bad else 0


if __name__ == "__main__":
    sys.exit(main())
