"""Spread independent configurations over the cores (harness-level multiprocessing,
unrelated to the virtual multiprocessing layer used inside explorations)."""
import multiprocessing as mp
import os
import traceback

from .harness import Part


def ncores():
    try:
        n = len(os.sched_getaffinity(0))
    except Exception:
        n = os.cpu_count() or 1
    return max(1, min(16, int(os.environ.get("VERIF_JOBS", n))))


def _call(args):
    func, item = args
    trace = os.environ.get("VERIF_TRACE_ITEMS")
    if trace:
        _nm = lambda it: getattr(it, "name", None) or (" ".join(str(getattr(x, "name", x)) for x in it) if isinstance(it, tuple) else repr(it))  # noqa: E731
        import sys
        import time

        t0 = time.time()
        sys.stderr.write("ITEM-START pid=%d %s\n" % (os.getpid(), _nm(item)[:200]))
        sys.stderr.flush()
    try:
        r = func(item)
        if trace:
            sys.stderr.write("ITEM-END pid=%d %.1fs %s\n" % (os.getpid(), time.time() - t0, _nm(item)[:200]))
            sys.stderr.flush()
    except BaseException as e:  # a crash of the driver itself: surfaced as check error
        p = Part()
        p.notes.append("driver crash on %r: %s" % (item, traceback.format_exc()[-1500:]))
        p.counters["driver_crashes"] = 1
        return p
    return r


def pmap(func, items, report, chunksize=1, jobs=None):
    """Run func(item) -> Part for every item, merging the parts into report.

    func must be a module-level function (fork start method; items must pickle)."""
    items = list(items)
    jobs = jobs or ncores()
    if jobs <= 1 or len(items) <= 1:
        for it in items:
            report.merge(_call((func, it)))
        return
    # non-daemonic workers: toasty itself starts child processes in some workflows
    import concurrent.futures as cf

    ctx = mp.get_context("fork")
    with cf.ProcessPoolExecutor(max_workers=min(jobs, len(items)), mp_context=ctx) as ex:
        futs = [ex.submit(_call, (func, it)) for it in items]
        for f in cf.as_completed(futs):
            report.merge(f.result())
