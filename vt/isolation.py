"""Fresh-process semantics for module- and class-level mutable state of toasty.

Every execution of the explorer stands for a run in a fresh OS process.  Mutable containers
that live at module or class level in toasty (a cache, a memo, a shared work buffer) would
otherwise survive from one execution to the next and make replays diverge.  The pristine
values are recorded once and restored - in place, so that references keep their identity -
before each execution."""
import copy
import sys
import types

import numpy as np

MUTABLE = (dict, list, set, bytearray)
_BASE = {}


def _modules():
    return [m for n, m in sorted(sys.modules.items()) if (n == "toasty" or n.startswith("toasty.")) and m is not None and not n.startswith("toasty.tests")]


def _slots():
    """(owner, attribute name, value) for every module global / class attribute holding a mutable container."""
    out = []
    for m in _modules():
        for name, val in list(vars(m).items()):
            if name.startswith("__"):
                continue
            if isinstance(val, MUTABLE) or (isinstance(val, np.ndarray) and val.flags.writeable):
                out.append((m, name, val))
            elif isinstance(val, type) and getattr(val, "__module__", None) == m.__name__:
                for an, av in list(vars(val).items()):
                    if an.startswith("__"):
                        continue
                    if isinstance(av, MUTABLE) or (isinstance(av, np.ndarray) and av.flags.writeable):
                        out.append((val, an, av))
    return out


def _key(owner, name):
    return (getattr(owner, "__module__", None) or "", getattr(owner, "__qualname__", getattr(owner, "__name__", "?")), name)


def reset():
    """Restore recorded containers to their pristine content; record newly seen ones."""
    if not _BASE:
        # the baseline is taken of modules as a fresh process has them after import: have them imported before the
        # first execution runs any of their code (a global first seen AFTER an execution has rebound it cannot be told
        # from its pristine value)
        import importlib

        for mod in ("pyramid", "toast", "merge", "multi_tan", "multi_wcs", "samplers", "image", "builder", "collection", "par_util", "study", "fits_tiler", "progress", "cli", "pipeline", "wwtl"):
            try:
                importlib.import_module("toasty." + mod)
            except Exception:
                pass
    for owner, name, val in _slots():
        k = _key(owner, name)
        if k not in _BASE:
            try:
                _BASE[k] = copy.deepcopy(val)
            except Exception:
                _BASE[k] = None
            continue
        base = _BASE[k]
        if base is None:
            continue
        try:
            if isinstance(val, dict):
                if val != base:
                    val.clear()
                    val.update(copy.deepcopy(base))
            elif isinstance(val, list):
                if val != base:
                    val[:] = copy.deepcopy(base)
            elif isinstance(val, set):
                if val != base:
                    val.clear()
                    val.update(copy.deepcopy(base))
            elif isinstance(val, np.ndarray):
                if val.shape == base.shape:
                    val[...] = base
            elif isinstance(val, bytearray):
                val[:] = base
        except Exception:
            pass
    # rebound scalars/None-able module globals and class attributes: a memo (`_last = None` rebound to a
    # tuple), a public switch (`par_util.SHOW_INFORMATIONAL_MESSAGES`), a default stored on a class
    SC = (int, float, str, tuple, bool)
    owners = []
    for m in _modules():
        owners.append((m, m.__name__))
        for val in list(vars(m).values()):
            if isinstance(val, type) and getattr(val, "__module__", None) == m.__name__:
                import enum

                if not issubclass(val, enum.Enum):
                    owners.append((val, m.__name__ + "." + val.__qualname__))
    for owner, oname in owners:
        for name, val in list(vars(owner).items()):
            if name.startswith("__") or isinstance(val, (types.ModuleType, types.FunctionType, type, MUTABLE, np.ndarray, classmethod, staticmethod, property)):
                continue
            k = ("scalar", oname, name)
            if k not in _BASE:
                if val is None or isinstance(val, SC):
                    _BASE[k] = val
            elif _BASE[k] is not val and _BASE[k] != val and (val is None or isinstance(val, SC) or _BASE[k] is None):
                try:
                    setattr(owner, name, _BASE[k])
                except Exception:
                    pass
    # attributes ADDED to a toasty class after the baseline was taken are not removed: they cannot have been
    # there in a fresh process, but deleting attributes of live classes is riskier than the leak they stand for
