"""Stateful depth-first exploration by re-execution over the vmp layer (DESIGN 3.2-3.4)."""
import random
import time

from . import vmp, statekey
from .build import repo_dir


class ExploreResult(object):
    def __init__(self, name):
        self.name = name
        self.states = 0
        self.transitions = 0
        self.executions = 0
        self.steps = 0
        self.terminals = 0
        self.outcomes = {}  # observation summary -> count of terminal states
        self.violations = {}  # signature -> (detail, trace labels)
        self.exhaustive = True
        self.deviation_bound = None
        self.unsound = None
        self.sample_traces = []
        self.counters = {}
        self.wall = 0.0

    def violation(self, sig, detail, trace):
        if sig not in self.violations:
            self.violations[sig] = (detail, list(trace))


class Harness(object):
    """What a driver provides for one configuration."""

    name = "cfg"
    pipe_capacity = None
    io_points = False

    def fresh(self):
        """-> (main_fn, monitor, root_dir_or_None): fresh objects for one execution."""
        raise NotImplementedError

    def cleanup(self, root):
        pass

    def at_terminal(self, sched, monitor):
        """-> list of (signature, detail); and an observation summary (hashable)."""
        return [], None


def _execute(h, prefix, repo, stop_at_seen=None):
    """Run one execution: replay `prefix` (indices into the canonical enabled list), then
    hand control to the caller step by step through a generator protocol."""
    raise NotImplementedError


class Execution(object):
    def __init__(self, h):
        self.h = h
        from . import isolation

        isolation.reset()  # every execution stands for a fresh process
        self.main_fn, self.monitor, self.root = h.fresh()
        self.sched = vmp.Sched(pipe_capacity=h.pipe_capacity, io_points=h.io_points, monitor=self.monitor, root=self.root, contended_timeouts=getattr(h, "contended_timeouts", False))
        self.sched.create_points = bool(getattr(h, "create_points", False))
        self.patch = vmp.Patched(self.sched)
        self.patch.__enter__()
        try:
            self.sched.start_main(self.main_fn)
        except BaseException:
            self.close()
            raise

    def close(self):
        try:
            self.sched.abort()
        finally:
            self.patch.__exit__(None, None, None)
            self.h.cleanup(self.root)

    def main_finished(self):
        return self.sched.main().finished

    def step_violations(self):
        out = list(self.sched.violations)
        if self.monitor is not None:
            out += list(self.monitor.violations)
        return out


def key_trace(h, choices, repo):
    """Execute one schedule (choice indices) and return the sequence of state keys."""
    ex = Execution(h)
    keys = []
    try:
        for c in choices:
            keys.append(statekey.state_key(ex.sched, repo, None)[0])
            acts = ex.sched.enabled()
            if c >= len(acts):
                raise vmp.VmpError("replay divergence: choice %d of %d" % (c, len(acts)))
            ex.sched.execute(acts[c])
        keys.append(statekey.state_key(ex.sched, repo, None)[0])
    finally:
        ex.close()
    return keys


def explore(h, max_states=200000, seed=0, max_wall=None, check_key_soundness=True, progress=None, determinism_checks=2, max_deviations=None):
    """max_deviations=k: iterative-context-bounding style restriction -- only schedules that depart at most
    k times from the default choice (the first enabled action in canonical order: keep running the process
    that moved last) are explored, all of them; a state is re-expanded when reached again with fewer
    deviations spent.  The termination analysis needs the complete graph and is skipped under a bound."""
    repo = repo_dir()
    res = ExploreResult(h.name)
    if max_deviations is None:
        max_deviations = getattr(h, "max_deviations", None)
    # horizon: an execution is cut (without a verdict beyond that point) after this many steps - for inputs far
    # wider than the state-space bound, whose first phase (e.g. seeding a queue before any consumer exists) is
    # what is being examined
    horizon = getattr(h, "horizon_steps", None)
    res.deviation_bound = max_deviations
    spent = {}  # key -> fewest deviations with which the state was expanded
    t0 = time.time()
    rnd = random.Random(seed) if seed else None
    seen = {}  # key -> hash of canonical enabled labels
    parent = {}  # key -> (parent key, label)
    succ = {}  # key -> set of successor keys
    terminal_keys = set()
    cut_keys = set()  # states where exploration stopped because of a violation
    stack = [((), None, None)]  # (prefix, parent key, label of last choice)
    MAXSTEPS = 200000

    while stack:
        if len(seen) >= max_states or (max_wall and time.time() - t0 > max_wall):
            res.exhaustive = False
            break
        prefix, pkey, plabel = stack.pop()
        try:
            ex = Execution(h)
        except vmp.Spinning as e:
            res.exhaustive = False
            res.unsound = "exploration stopped: %s" % e
            break
        res.executions += 1
        spun = False
        choices = list(prefix)
        try:
            sched = ex.sched
            # replay
            ok = True
            for i, c in enumerate(prefix):
                acts = sched.enabled()
                if c >= len(acts):
                    raise vmp.VmpError("replay divergence at step %d of %r: %d enabled" % (i, prefix, len(acts)))
                sched.execute(acts[c])
            if plabel is not None and sched.trace[-1] != plabel:
                raise vmp.VmpError("replay divergence: expected %s got %s" % (plabel, sched.trace[-1]))
            choices = list(prefix)
            cur_parent, cur_label = pkey, plabel
            while True:
                res.steps += 1
                viol = ex.step_violations()
                finished = ex.main_finished()
                extra = None
                if max_deviations == 0:
                    # a single execution (the default schedule): nothing to merge, so no key is computed (its cost
                    # grows with the length of the queues)
                    key, rank = ("step", len(choices)), None
                else:
                    key, rank = statekey.state_key(sched, repo, extra)
                acts = [] if (finished or viol) else sched.enabled()
                canon = hash(statekey.canon_labels(acts, sched, rank)) if rank is not None else 0
                if rank is not None:
                    # the set of enabled actions is made part of the key: two states that offer different actions are
                    # never merged, whatever the digest of their components says
                    key = (key, canon)
                if cur_parent is not None:
                    succ.setdefault(cur_parent, set()).add(key)
                    res.transitions += 1
                ndev = sum(1 for c in choices if c)
                if key in seen:
                    if check_key_soundness and seen[key] != canon:
                        res.unsound = "state key merged states with different enabled actions; trace %r" % (sched.trace,)
                        raise vmp.VmpError("UNSOUND-KEY: " + res.unsound)
                    if max_deviations is None or spent.get(key, 0) <= ndev or key in terminal_keys or key in cut_keys:
                        break
                    # reached again having spent fewer deviations: more of its successors are within the bound
                    res.counters["re_expansions"] = res.counters.get("re_expansions", 0) + 1
                spent[key] = ndev
                seen[key] = canon
                if cur_parent is not None:
                    parent[key] = (cur_parent, cur_label)
                else:
                    parent[key] = None
                if viol:
                    cut_keys.add(key)
                    for sig, detail in viol:
                        res.violation(sig, detail, sched.trace)
                    break
                if finished:
                    terminal_keys.add(key)
                    res.terminals += 1
                    vs, obs = h.at_terminal(sched, ex.monitor)
                    res.outcomes[obs] = res.outcomes.get(obs, 0) + 1
                    for sig, detail in vs:
                        res.violation(sig, detail, sched.trace)
                    if len(res.sample_traces) < 3:
                        res.sample_traces.append(list(sched.trace))
                    break
                if not acts:
                    cut_keys.add(key)
                    pend = ["%s:%s" % (p.name, p.pending[0] if p.pending else None) for p in sched.procs if not p.done]
                    res.violation("deadlock", "no enabled action; pending: %s" % pend, sched.trace)
                    break
                alts = list(range(1, len(acts)))
                if max_deviations is not None and ndev >= max_deviations:
                    alts = []
                if rnd:
                    rnd.shuffle(alts)
                for a in reversed(alts):
                    stack.append((tuple(choices) + (a,), key, acts[a].label))
                sched.execute(acts[0])
                choices.append(0)
                cur_parent, cur_label = key, acts[0].label
                if horizon is not None and len(choices) >= horizon:
                    res.counters["executions_cut_at_the_horizon"] = res.counters.get("executions_cut_at_the_horizon", 0) + 1
                    cut_keys.add(key)
                    break
                if len(choices) > MAXSTEPS:
                    raise vmp.VmpError("horizon exceeded")
        except vmp.Spinning as e:
            # a process busy-waits outside the virtual layer: the exploration cannot go on (not a verdict)
            res.exhaustive = False
            res.unsound = "exploration stopped: %s" % e
            spun = True
        finally:
            ex.close()
        if spun:
            break
        if determinism_checks > 0 and len(choices) >= 3:
            # replay determinism: the same schedule must produce the same state keys (twice)
            determinism_checks -= 1
            # (the first 1200 steps: key computation grows with the queues of the very long single-schedule runs)
            k1 = key_trace(h, choices[:1200], repo)
            k2 = key_trace(h, choices[:1200], repo)
            res.counters["determinism_replays"] = res.counters.get("determinism_replays", 0) + 2
            if k1 != k2:
                raise vmp.VmpError("NONDETERMINISM: the same schedule produced different state keys (%s)" % h.name)
        if progress and res.executions % 2000 == 0:
            progress("%s: %d states, %d executions, %.0fs" % (h.name, len(seen), res.executions, time.time() - t0))

    res.states = len(seen)
    # termination analysis: every explored state must be able to reach a terminal state
    if res.exhaustive and max_deviations is None:
        pred = {}
        for a, bs in succ.items():
            for b in bs:
                pred.setdefault(b, []).append(a)
        good = set(terminal_keys) | set(cut_keys)
        work = list(good)
        while work:
            k = work.pop()
            for a in pred.get(k, ()):
                if a not in good:
                    good.add(a)
                    work.append(a)
        stuck = [k for k in seen if k not in good]
        res.counters["states_that_cannot_terminate"] = len(stuck)
        if stuck:
            # shortest-ish witness: the stuck state with the shortest parent chain
            def path(k):
                labs = []
                while parent.get(k) is not None:
                    pk, lab = parent[k]
                    labs.append(lab)
                    k = pk
                return labs[::-1]

            best = min((path(k) for k in stuck[:2000]), key=len)
            res.violation(
                "can-wait-forever",
                "%d reachable states from which no terminating continuation exists (main never returns); shortest witness has %d steps"
                % (len(stuck), len(best)),
                best,
            )
    res.wall = time.time() - t0
    return res


def run_labels(h, labels, tolerate_end=True):
    """Replay one schedule given as action labels (no explorer). Returns the Execution
    (caller must close()) positioned after the last label."""
    ex = Execution(h)
    try:
        for i, lab in enumerate(labels):
            acts = ex.sched.enabled()
            m = [a for a in acts if a.label == lab]
            if not m:
                raise vmp.VmpError("replay: label %r not enabled at step %d (enabled: %r)" % (lab, i, acts))
            ex.sched.execute(m[0])
    except BaseException:
        ex.close()
        raise
    return ex


def explore_unmerged(h, max_timeouts=2, max_execs=50000):
    """Stateless depth-first exploration WITHOUT state merging (self-test of the state keys):
    every schedule with at most `max_timeouts` timeout actions is executed to the end.  Returns
    (set of terminal observations, set of violation signatures, executions, complete?)."""
    outcomes, viols = set(), set()
    stack = [()]
    n = 0
    while stack:
        if n >= max_execs:
            return outcomes, viols, n, False
        prefix = stack.pop()
        ex = Execution(h)
        n += 1
        try:
            sched = ex.sched
            for c in prefix:
                acts = sched.enabled()
                sched.execute(acts[c])
            choices = list(prefix)
            while True:
                v = ex.step_violations()
                if v:
                    viols.update(sig for sig, _ in v)
                    break
                if ex.main_finished():
                    vs, obs = h.at_terminal(sched, ex.monitor)
                    outcomes.add(obs)
                    viols.update(sig for sig, _ in vs)
                    break
                acts = sched.enabled()
                ntm = sum(1 for l in sched.trace if "timeout" in l)
                allowed = [i for i, a in enumerate(acts) if not (a.kind == "timeout" and ntm >= max_timeouts)]
                if not allowed:
                    if not acts:
                        viols.add("deadlock")
                    break
                for i in allowed[1:]:
                    stack.append(tuple(choices) + (i,))
                sched.execute(acts[allowed[0]])
                choices.append(allowed[0])
        finally:
            ex.close()
    return outcomes, viols, n, True
