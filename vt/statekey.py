"""Canonical state keys for vmp executions (DESIGN.md section 3.3).

The local state of a virtual process is read off its thread's Python frames: for every
frame that belongs to toasty or to a harness driver, (function name, f_lasti) plus a
structural digest of f_locals.  This is the whole reachable local heap minus a short,
justified noise list, so it errs on the fine side (over-fine keys only cost time).
"""
import hashlib
import os
import sys
import types

import numpy as np

from . import vmp

# Locals dropped from the digest, with the reason each cannot influence control flow:
NOISE_NAMES = {
    "progress",  # tqdm bar created with disable=True: update() is a no-op
    "t0",  # wall-clock stamp used only in an informational print
    "mp",  # module object
    "Empty",  # exception class imported locally
    "warnings",
}

ROOT = None  # scratch directory of the execution being keyed (relativised in digests)

_VERIF = os.path.dirname(os.path.dirname(os.path.abspath(__file__)))


import sysconfig as _sysconfig

_EXCLUDED = tuple(
    sorted(
        set(
            os.path.realpath(p)
            for p in (
                _sysconfig.get_paths()["stdlib"],
                _sysconfig.get_paths()["purelib"],
                _sysconfig.get_paths()["platlib"],
                os.path.dirname(os.__file__),
            )
        )
    )
)
_MACHINERY = (os.path.join(_VERIF, "vt", "vmp.py"), os.path.join(_VERIF, "vt", "explore.py"))


def _interesting(filename, repo):
    """Frames whose locals are part of a virtual process's state: everything except the
    standard library, installed third-party packages and the scheduler itself."""
    if filename.startswith("<"):
        return False
    if filename in _MACHINERY:
        return False
    return not filename.startswith(_EXCLUDED)


def digest(o, memo, depth=0):
    """Structural, deterministic, hashable digest of a Python value."""
    if isinstance(o, str):
        if ROOT and ROOT in o:
            return o.replace(ROOT, "<root>")
        return o
    if o is None or isinstance(o, (bool, int, bytes)):
        return o
    if isinstance(o, float):
        return repr(o)
    if depth > 12:
        return ("deep", type(o).__name__)
    oid = id(o)
    if oid in memo:
        return ("ref", memo[oid])
    t = type(o)
    if t is tuple or (isinstance(o, tuple) and hasattr(o, "_fields")):
        return (t.__name__,) + tuple(digest(x, memo, depth + 1) for x in o)
    if isinstance(o, np.ndarray):
        if o.size <= 16:
            return ("nd", o.dtype.str, o.shape, tuple(repr(x) for x in o.ravel().tolist()))
        return ("nd", o.dtype.str, o.shape, hashlib.blake2b(np.ascontiguousarray(o).view(np.uint8).tobytes(), digest_size=8).hexdigest())
    if isinstance(o, np.generic):
        return ("np", repr(o))
    memo[oid] = len(memo)
    if isinstance(o, list):
        return ("list",) + tuple(digest(x, memo, depth + 1) for x in o)
    if isinstance(o, dict):
        items = [(digest(k, memo, depth + 1), digest(v, memo, depth + 1)) for k, v in o.items()]
        return ("dict",) + tuple(sorted(items, key=repr))
    if isinstance(o, (set, frozenset)):
        return ("set",) + tuple(sorted((digest(x, memo, depth + 1) for x in o), key=repr))
    if isinstance(o, (vmp.VQueue, vmp.VEvent)):
        return ("handle", o.name)
    if isinstance(o, vmp.VProcess):
        return ("phandle", o._pname())
    if isinstance(o, vmp.VSoftFileLock):
        return ("lock", o.sched.rel(o.lock_file), o._held)
    if isinstance(o, types.GeneratorType):
        fr = o.gi_frame
        if fr is None:
            return ("gen", o.__qualname__, "finished")
        return ("gen", o.__qualname__, fr.f_lasti, _locals_digest(fr.f_locals, memo, depth + 1))
    if isinstance(o, (types.FunctionType, types.LambdaType)):
        cells = ()
        if o.__closure__:
            vals = []
            for c in o.__closure__:
                try:
                    vals.append(digest(c.cell_contents, memo, depth + 1))
                except ValueError:
                    vals.append("<empty>")
            cells = tuple(vals)
        return ("fn", o.__module__, o.__qualname__, cells)
    if isinstance(o, types.MethodType):
        return ("meth", o.__func__.__qualname__, digest(o.__self__, memo, depth + 1))
    if isinstance(o, (types.ModuleType, type, types.BuiltinFunctionType)):
        return ("static", getattr(o, "__name__", "?"))
    name = t.__name__
    if name.startswith("tqdm") or t.__module__.startswith("tqdm"):
        return ("tqdm",)
    kd = getattr(o, "__vt_key__", None)
    if kd is not None:
        return ("vt", name, digest(kd(), memo, depth + 1))
    d = getattr(o, "__dict__", None)
    if d is not None:
        return ("obj", name, _locals_digest(d, memo, depth + 1))
    slots = getattr(t, "__slots__", None)
    if slots:
        return ("obj", name, tuple((s, digest(getattr(o, s, None), memo, depth + 1)) for s in slots))
    if isinstance(o, BaseException):
        return ("exc", name, str(o))
    try:
        import enum

        if isinstance(o, enum.Enum):
            return ("enum", name, o.name)
    except Exception:
        pass
    return ("opaque", name)


def _locals_digest(d, memo, depth):
    out = []
    for k in sorted(d):
        if k in NOISE_NAMES:
            continue
        out.append((k, digest(d[k], memo, depth)))
    return tuple(out)


def local_state(proc, repo):
    """Digest of the Python-level local state of one virtual process."""
    if proc.local_cache is not None:
        return proc.local_cache
    if proc.done or getattr(proc, "thread_done", False):
        res = ("exited",)
    else:
        fr = sys._current_frames().get(proc.thread.ident)
        frames = []
        memo = {}
        while fr is not None:
            co = fr.f_code
            if _interesting(co.co_filename, repo):
                frames.append((co.co_name, fr.f_lasti, _locals_digest(fr.f_locals, memo, 0)))
            fr = fr.f_back
        res = tuple(frames)
    proc.local_cache = res
    return res


def _op_digest(op, memo):
    if op is None:
        return None
    out = [op[0]]
    for a in op[1:]:
        out.append(digest(a, memo, 1))
    return tuple(out)


def _listing(sched):
    """Names and sizes of every file under the scratch root (plus the content of very small ones): files that
    the code under test creates or removes directly (marker files, scratch copies) are part of the state even
    when they never went through the tile-I/O wrappers, whose content digests are in sched.fs."""
    root = sched.root
    if not root:
        return ()
    out = []
    for d, _dirs, files in os.walk(root):
        if not files and not _dirs:
            # an empty directory (created ahead of a write, or left after a removal) is state too
            out.append((os.path.relpath(d, root) + "/", -2, b""))
        for f in files:
            p = os.path.join(d, f)
            try:
                n = os.path.getsize(p)
                small = open(p, "rb").read() if n <= 64 else b""
            except OSError:
                continue
            rel = os.path.relpath(p, root)
            out.append((rel, n if rel not in sched.fs else -1, small if rel not in sched.fs else b""))
    out.sort()
    return tuple(out)


def state_key(sched, repo, extra=None):
    """Canonical key of the current global state, plus the worker ranking used to
    compare enabled-action sets across symmetric states."""
    global ROOT
    ROOT = sched.root
    comps = []
    for p in sched.procs:
        memo = {}
        qst = []
        for q in sched.queues:
            st = q.states.get(p.pid)
            if st is not None:
                buf = tuple("S" if x is vmp._SENTINEL else digest(x, memo, 1) for x in st["buf"])
                qst.append((q.name, buf, st["closed"], st["feeder"]))
        mon = sched.monitor.proc_state(p.pid) if sched.monitor is not None else None
        comp = (
            p.group,
            local_state(p, repo),
            _op_digest(p.pending, memo),
            tuple(qst),
            p.done,
            p.exitcode,
            p.finished,
            p.outcome[:2] if p.outcome and p.outcome[0] == "raise" else (p.outcome[0] if p.outcome else None),
            digest(mon, memo, 1),
            p.nops if p.name == "main" else None,
            tuple(sorted(k for k, v in sched.locks.items() if v == p.pid)),
            tuple(sorted(k for k, v in getattr(sched, "flocks", {}).items() if v == p.pid)),
            tuple(sorted(k for k, v in sched.writing.items() if v == p.pid)),
        )
        comps.append((repr(comp), p.pid))
    main = comps[0]
    others = sorted(comps[1:])
    rank = {main[1]: "main"}
    for i, (_, pid) in enumerate(others):
        rank[pid] = "r%d" % i
    # main refers to specific workers (its `workers` list, a pending join): rename those
    # references consistently with the ranking so that symmetric states really coincide
    mrepr = main[0]
    if "'phandle'" in mrepr:
        for p in sched.procs[1:]:
            mrepr = mrepr.replace("('phandle', '%s')" % p.name, "('phandle', '<%s>')" % rank[p.pid])
    main = (mrepr, main[1])
    shared = (
        _listing(sched),
        tuple((q.name, q.maxsize, q.sem, tuple(q.pipe)) for q in sched.queues),
        tuple((e.name, e.flag) for e in sched.events),
        tuple(sorted(sched.fs.items())),
        sched.monitor.shared_state() if sched.monitor is not None else None,
        extra,
    )
    h = hashlib.blake2b(digest_size=16)
    h.update(main[0].encode())
    for c, _ in others:
        h.update(b"|")
        h.update(c.encode())
    h.update(b"#")
    h.update(repr(shared).encode())
    return h.digest(), rank


def canon_labels(acts, sched, rank):
    """Enabled-action labels with worker names replaced by their rank."""
    names = {p.name: rank[p.pid] for p in sched.procs}
    out = []
    for a in acts:
        lab = a.label
        for n, r in names.items():
            if n == "main":
                continue
            lab = lab.replace(n + ":", r + ":").replace("," + n + ",", "," + r + ",").replace("(" + n + ")", "(" + r + ")")
        out.append(lab)
    return tuple(sorted(out))
