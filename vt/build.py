"""Rebuild step: make sure the compiled helper matches the working tree.

Cython is not available in this image, so only the generated C file can be rebuilt."""
import os
import subprocess
import sys
import sysconfig
import glob


def repo_dir():
    return os.environ.get("VERIF_REPO", "/repo")


def ensure_built(verbose=True):
    repo = repo_dir()
    tdir = os.path.join(repo, "toasty")
    c = os.path.join(tdir, "_libtoasty.c")
    pyx = os.path.join(tdir, "_libtoasty.pyx")
    suffix = sysconfig.get_config_var("EXT_SUFFIX")
    so = os.path.join(tdir, "_libtoasty" + suffix)
    if repo != "/repo" and not os.path.exists(so):
        # scratch worktree: the generated files are git-ignored; borrow them
        import shutil

        for f in ("_libtoasty.c", "_libtoasty" + suffix):
            src = os.path.join("/repo/toasty", f)
            if os.path.exists(src) and not os.path.exists(os.path.join(tdir, f)):
                shutil.copy2(src, os.path.join(tdir, f))
    if os.path.exists(pyx) and os.path.exists(c) and os.path.getmtime(pyx) > os.path.getmtime(c) + 1:
        print(
            "WARNING: _libtoasty.pyx is newer than the generated _libtoasty.c but Cython is "
            "unavailable in this image; checks exercise the stale compiled module",
            file=sys.stderr,
        )
    if os.path.exists(c) and (not os.path.exists(so) or os.path.getmtime(c) > os.path.getmtime(so) + 1):
        import numpy

        inc = sysconfig.get_paths()["include"]
        tmp = so + ".tmp%d" % os.getpid()
        cmd = [
            "gcc", "-shared", "-fPIC", "-O2", "-w",
            "-I", inc, "-I", numpy.get_include(), c, "-o", tmp, "-lm",
        ]
        if verbose:
            print("rebuilding _libtoasty from generated C", file=sys.stderr)
        subprocess.check_call(cmd)
        os.replace(tmp, so)


def activate_repo():
    """Make `import toasty` resolve to the tree under test."""
    repo = repo_dir()
    if repo != "/repo":
        sys.path.insert(0, repo)
    import toasty

    got = os.path.dirname(os.path.dirname(os.path.abspath(toasty.__file__)))
    if os.path.realpath(got) != os.path.realpath(repo):
        raise RuntimeError("toasty imported from %s, expected %s" % (got, repo))
