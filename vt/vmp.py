"""vmp -- a virtual `multiprocessing` / `filelock` layer with a controlled scheduler.

Each OS process of the real system becomes one Python thread; exactly one thread runs at
a time (baton passing).  A thread runs until its next *communication operation*, announces
it and blocks; the scheduler (driven by the explorer) decides which announced operation
happens next and with which answer.  Semantics follow CPython 3.12 multiprocessing.queues
(see DESIGN.md section 3.1).
"""
import copy
import hashlib
import os
import pickle
import queue as _queue
import sys
import threading
import traceback

_SENTINEL = ("<close-sentinel>",)
_REAL_UNLINK = os.unlink


class _Baton(object):
    """Binary semaphore on a raw lock (much cheaper than threading.Semaphore)."""

    __slots__ = ("_l",)

    def __init__(self):
        self._l = threading.Lock()
        self._l.acquire()

    def acquire(self, timeout=None):
        if timeout is None:
            self._l.acquire()
            return True
        return self._l.acquire(True, timeout)

    def release(self):
        try:
            self._l.release()
        except RuntimeError:
            pass  # already signalled (only happens while an execution is being torn down)


class Abort(BaseException):
    """Unwinds a virtual process when an execution is cut short."""


class Killed(BaseException):
    """Raised inside a virtual process to make it die abruptly (as if by SIGKILL)."""


class VmpError(Exception):
    """Error of the machinery (never a verdict)."""


class Spinning(Exception):
    """A virtual process ran for STEP_TIMEOUT seconds without reaching a scheduling point: it busy-waits on
    something outside the virtual layer (its own polling loop on the file system, a real sleep loop...).
    Under the baton no other process can move meanwhile, so the wait can never end."""


STEP_TIMEOUT = float(os.environ.get("VERIF_STEP_TIMEOUT", "120"))


_tls = threading.local()
CURRENT = None  # the Sched of the execution in progress (one at a time per OS process)


def current_proc():
    return getattr(_tls, "proc", None)


class VProc(object):
    def __init__(self, sched, pid, name, target, args, kwargs, group):
        self.sched = sched
        self.pid = pid
        self.name = name
        self.group = group  # symmetry class (target name)
        self.target = target
        self.args = args
        self.kwargs = kwargs
        self.sem = _Baton()
        self.pending = None
        self.result = None
        self.exc = None
        self.done = False  # exit action executed
        self.finished = False  # target returned / raised
        self.exitcode = None
        self.outcome = None  # ("return", value) | ("raise", typename, text)
        self.thread = None
        self.nops = 0  # data-carrying operations completed (see DESIGN 3.3)
        self.local_cache = None
        self.killed = False
        self.exitcode_pending = None
        self.in_fsop = False

    def _thread_main(self):
        _tls.proc = self
        self.sem.acquire()
        try:
            if self.sched.aborting or self.killed:
                return
            try:
                r = self.target(*self.args, **self.kwargs)
                self.outcome = ("return", r)
                code = 0
            except Abort:
                return
            except Killed:
                # the process dies where it stands (SIGKILL, OOM killer): nothing is flushed
                self.outcome = ("killed", "SIGKILL", "")
                for st in self.sched._proc_qstates(self):
                    st["buf"] = []
                    st["closed"] = True
                    if st["feeder"] == "running":
                        st["feeder"] = "done"
                code = -9
                self.finished = True
                self.exitcode_pending = code
                try:
                    self.sched.op("exit")
                except Abort:
                    return
                return
            except SystemExit as e:
                # sys.exit(n) in a child: the parent's wait() sees the low 8 bits of an integer status (sys.exit(256)
                # looks like success), None is 0, anything else is printed and counts as 1
                c = e.code
                code = 0 if c is None else (c & 0xFF) if isinstance(c, int) and not isinstance(c, bool) else (int(c) if isinstance(c, bool) else 1)
                if self.sched.procs and self.sched.procs[0] is self:
                    code = 1  # the caller of the stage: the exception reaches the harness as it is
                self.outcome = ("raise", "SystemExit", "SystemExit: %r" % (c,)) if code else ("return", None)
                self.tb = traceback.format_exc()
            except BaseException as e:  # like a child process: print traceback, exit code 1
                self.outcome = ("raise", type(e).__name__, "".join(traceback.format_exception_only(type(e), e)).strip())
                self.tb = traceback.format_exc()
                code = 1
            self.finished = True
            self.exitcode_pending = code
            try:
                self.sched.op("exit")
            except Abort:
                return
        finally:
            self.thread_done = True
            self.sched.wake.release()


class Action(object):
    __slots__ = ("label", "proc", "kind", "fn", "prio")

    def __init__(self, label, proc, kind, fn, prio):
        self.label = label
        self.proc = proc
        self.kind = kind
        self.fn = fn
        self.prio = prio

    def __repr__(self):
        return self.label


class Sched(object):
    def __init__(self, pipe_capacity=None, io_points=True, monitor=None, root=None, contended_timeouts=False):
        # contended_timeouts: a getter can also time out while data is in the pipe, if another process
        # is waiting on the same queue (in CPython the waiting getter holds the queue's reader lock, and
        # a second getter's timeout runs while it waits for that lock)
        self.contended_timeouts = contended_timeouts
        self.procs = []
        self.queues = []
        self.events = []
        self.wake = _Baton()
        self.aborting = False
        self.trace = []
        self.pipe_capacity = pipe_capacity
        self.io_points = io_points
        self.create_points = False
        self.monitor = monitor
        self.root = root  # scratch directory of this execution (paths are relativised to it)
        self.locks = {}  # relpath -> pid holding
        self.flocks = {}  # relpath -> pid holding an OS-level (flock) lock on that file
        self.fs = {}  # relpath -> content digest
        self.vprocs = []  # (parent pid, VProcess) in start order: multiprocessing.active_children()
        self.writing = {}  # relpath -> pid between write-begin and write-end
        self.last_moved = None
        self.violations = []  # (signature, detail) raised by the layer itself
        self.nsteps = 0
        self.feeder_errors = 0

    # -- process side -------------------------------------------------------------------

    def op(self, kind, *args):
        p = current_proc()
        if p is None or p.sched is not self:
            raise VmpError("operation %s outside a virtual process" % kind)
        if self.aborting or p.killed:
            raise Abort()
        p.pending = (kind,) + args
        self.wake.release()
        p.sem.acquire()
        if self.aborting or p.killed:
            raise Abort()
        if p.exc is not None:
            e, p.exc = p.exc, None
            raise e
        r, p.result = p.result, None
        return r

    # -- scheduler side -----------------------------------------------------------------

    def _await(self):
        """Wait until the process that was handed the baton yields at its next operation."""
        if not self.wake.acquire(STEP_TIMEOUT):
            who = self.last_moved.name if getattr(self, "last_moved", None) is not None else "?"
            self.spinning = True
            # not a verdict about the code under test: the exploration cannot proceed (reported as an error)
            raise Spinning("a process (last moved: %s) ran for %.0f s without reaching a scheduling point: it polls on something outside the virtual layer without sleeping" % (who, STEP_TIMEOUT))

    def _resume(self, p, result=None, exc=None):
        p.pending = None
        p.result = result
        p.exc = exc
        p.local_cache = None
        self.last_moved = p
        p.sem.release()
        self._await()

    def spawn(self, target, args=(), kwargs=None, name=None, group=None):
        pid = len(self.procs)
        p = VProc(self, pid, name or ("w%d" % pid), target, args, kwargs or {}, group or getattr(target, "__name__", "proc"))
        p.thread = threading.Thread(target=p._thread_main, name="vmp-%s" % p.name, daemon=True)
        p.thread_done = False
        self.procs.append(p)
        p.thread.start()
        return p

    def start_main(self, fn):
        p = self.spawn(fn, name="main", group="main")
        p.sem.release()
        self._await()
        self._eager()
        return p

    def rel(self, path):
        if self.root and path.startswith(self.root):
            return os.path.relpath(path, self.root)
        return path

    # eager (invisible, independent) operations: executed as soon as they are enabled
    def _eager(self):
        progress = True
        while progress:
            progress = False
            for p in self.procs:
                if p.pending is None or p.done:
                    continue
                k = p.pending[0]
                if k == "start":
                    vp = p.pending[1]
                    args = copy.deepcopy(vp._args)
                    kwargs = copy.deepcopy(vp._kwargs)
                    child = self.spawn(vp._target, args, kwargs, group=getattr(vp._target, "__name__", "proc"))
                    vp._proc = child
                    child.parent_pid = p.pid
                    self.vprocs.append((p.pid, vp))
                    child.sem.release()
                    self._await()
                    p.nops += 1
                    self._resume(p)
                    progress = True
                elif k == "close":
                    q = p.pending[1]
                    st = q.state(p)
                    if not st["closed"]:
                        st["closed"] = True
                        if st["feeder"] == "running":
                            st["buf"].append(_SENTINEL)
                    self._resume(p)
                    progress = True
                elif k == "join_thread":
                    q = p.pending[1]
                    st = q.state(p)
                    if st["feeder"] in (None, "done") or st.get("cancel_join"):
                        self._resume(p)
                        progress = True
                elif k == "join":
                    vp = p.pending[1]
                    if vp._proc is not None and vp._proc.done:
                        p.nops += 1
                        self._resume(p, result=True)
                        progress = True
                elif k == "is_set" and p.pending[1].flag:
                    # the flag is monotone (never cleared here): reading True commutes with everything
                    if not p.pending[1].cleared_ever:
                        self._resume(p, result=True)
                        progress = True
                elif k == "exitcode":
                    vp = p.pending[1]
                    if vp._proc is not None and vp._proc.done:
                        self._resume(p, result=vp._proc.exitcode)
                        progress = True
                elif k == "active_children":
                    # no live child: nothing another process does can change the answer
                    if not self._alive_children(p):
                        self._resume(p, result=[])
                        progress = True
                elif k == "local":
                    self._resume(p)
                    progress = True

    def _alive_children(self, p):
        return [vp for (ppid, vp) in self.vprocs if ppid == p.pid and vp._proc is not None and not vp._proc.done]

    def enabled(self):
        acts = []
        for p in self.procs:
            if p.pending is None or p.done:
                continue
            op = p.pending
            k = op[0]
            n = p.name
            if k == "put":
                q, obj = op[1], op[2]
                if q.maxsize <= 0 or q.sem > 0:
                    acts.append(Action("%s:put(%s)" % (n, q.name), p, "put", self._mk_put(p, q, obj), 1))
                elif len(op) > 3 and ((not op[3]) or op[4] is not None):
                    # a bounded put that gives up: only while the queue is full
                    acts.append(Action("%s:put-timeout(%s)" % (n, q.name), p, "timeout", self._mk_exc(p, _queue.Full()), 3))
            elif k == "get":
                q, block, timeout = op[1], op[2], op[3]
                if q.pipe:
                    acts.append(Action("%s:recv(%s)" % (n, q.name), p, "recv", self._mk_recv(p, q), 1))
                    if self.contended_timeouts and block and timeout is not None and any(
                        o is not p and not o.done and o.pending is not None and o.pending[0] == "get" and o.pending[1] is q for o in self.procs
                    ):
                        acts.append(Action("%s:timeout-contended(%s)" % (n, q.name), p, "timeout", self._mk_exc(p, _queue.Empty()), 3))
                elif (not block) or timeout is not None:
                    acts.append(Action("%s:timeout(%s)" % (n, q.name), p, "timeout", self._mk_exc(p, _queue.Empty()), 3))
            elif k == "qempty":
                acts.append(Action("%s:empty(%s)=%s" % (n, op[1].name, not op[1].pipe), p, "qempty", self._mk_res(p, not op[1].pipe), 1))
            elif k == "qfull":
                isfull = op[1].maxsize > 0 and op[1].sem == 0
                acts.append(Action("%s:full(%s)=%s" % (n, op[1].name, isfull), p, "qfull", self._mk_res(p, isfull), 1))
            elif k == "set":
                acts.append(Action("%s:set(%s)" % (n, op[1].name), p, "set", self._mk_set(p, op[1]), 1))
            elif k == "clear":
                acts.append(Action("%s:clear(%s)" % (n, op[1].name), p, "clear", self._mk_clear(p, op[1]), 1))
            elif k == "is_set":
                ev = op[1]
                acts.append(Action("%s:is_set(%s)=%s" % (n, ev.name, ev.flag), p, "is_set", self._mk_res(p, ev.flag), 1))
            elif k == "wait":
                ev, timeout = op[1], op[2]
                if ev.flag:
                    acts.append(Action("%s:wait(%s)=True" % (n, ev.name), p, "wait", self._mk_res(p, True), 1))
                elif timeout is not None:
                    acts.append(Action("%s:wait-timeout(%s)" % (n, ev.name), p, "timeout", self._mk_res(p, False), 3))
            elif k == "join":
                vp, timeout = op[1], op[2]
                if timeout is not None and not (vp._proc is not None and vp._proc.done):
                    acts.append(Action("%s:join-timeout(%s)" % (n, vp._pname()), p, "timeout", self._mk_res(p, False), 3))
            elif k == "exitcode":
                vp = op[1]
                acts.append(Action("%s:exitcode(%s)=None" % (n, vp._pname()), p, "exitcode", self._mk_res(p, None), 1))
            elif k == "is_alive":
                vp = op[1]
                alive = vp._proc is not None and not vp._proc.done
                acts.append(Action("%s:is_alive(%s)=%s" % (n, vp._pname(), alive), p, "is_alive", self._mk_res(p, alive), 1))
            elif k == "active_children":
                live = self._alive_children(p)
                acts.append(Action("%s:active_children()=%d" % (n, len(live)), p, "active_children", self._mk_res(p, live), 1))
            elif k == "terminate":
                vp = op[1]
                acts.append(Action("%s:terminate(%s)" % (n, vp._pname()), p, "terminate", self._mk_terminate(p, vp), 1))
            elif k == "exit":
                if p.name != "main" and all(st["feeder"] in (None, "done") or not st["buf"] or st.get("cancel_join") for st in self._proc_qstates(p)):
                    acts.append(Action("%s:exit(%s)" % (n, p.exitcode_pending), p, "exit", self._mk_exit(p), 2))
            elif k == "lock":
                path = op[1]
                if not self._lock_present(path):
                    acts.append(Action("%s:lock(%s)" % (n, path), p, "lock", self._mk_lock(p, path), 1))
                elif len(op) > 2 and op[2] is not None and op[2] >= 0:
                    # an acquire that gives up: only while somebody else's marker is present
                    import filelock

                    acts.append(Action("%s:lock-timeout(%s)" % (n, path), p, "timeout", self._mk_exc(p, filelock.Timeout(path)), 3))
                if self._lock_present(path) and self._marker_malformed(path):
                    # the lock library (filelock >= 3.13 / 4) treats a marker it cannot parse as a leftover once it is
                    # two seconds old and removes it; markers written by this layer are empty, anything else in the
                    # file was put there by the code under test
                    acts.append(Action("%s:lock-break-malformed(%s)" % (n, path), p, "timeout", self._mk_break_and_lock(p, path), 3))
            elif k == "unlock":
                acts.append(Action("%s:unlock(%s)" % (n, op[1]), p, "unlock", self._mk_unlock(p, op[1]), 1))
            elif k == "flock":
                # an OS-level lock on the file: exclusive among flock users only; the file is created and stays
                if op[1] not in self.flocks:
                    acts.append(Action("%s:flock(%s)" % (n, op[1]), p, "flock", self._mk_flock(p, op[1]), 1))
            elif k == "funlock":
                acts.append(Action("%s:funlock(%s)" % (n, op[1]), p, "funlock", self._mk_funlock(p, op[1]), 1))
            elif k == "read":
                acts.append(Action("%s:read(%s)" % (n, op[1]), p, "read", self._mk_read(p, op[1]), 1))
            elif k == "wbegin":
                acts.append(Action("%s:write-begin(%s)" % (n, op[1]), p, "wbegin", self._mk_wbegin(p, op[1]), 1))
            elif k == "wend":
                acts.append(Action("%s:write-end(%s)" % (n, op[1]), p, "wend", self._mk_wend(p, op[1]), 1))
            elif k == "fsop":
                acts.append(Action("%s:%s(%s)" % (n, op[1], self.rel(op[2])), p, "fsop", self._mk_fsop(p, op[1], op[2], op[3], op[4]), 1))
            elif k == "pause":
                # a sleep is a yield: in the default order everything else that can move (other processes, the
                # feeder threads) moves first, so that a polling loop does not starve what it is waiting for
                acts.append(Action("%s:resume(%s)" % (n, op[1]), p, "pause", self._mk_res(p, None), 2.5 if op[1] == "sleep" else 1))
            elif k in ("start", "close", "join_thread", "local"):
                pass  # eager; blocked ones (join_thread waiting for the feeder) are not enabled
            else:
                raise VmpError("unknown op %r" % (op,))
        for q in self.queues:
            for pid in sorted(q.states):
                st = q.states[pid]
                if st["feeder"] == "running" and st["buf"]:
                    if st["buf"][0] is _SENTINEL or self.pipe_capacity is None or len(q.pipe) < self.pipe_capacity:
                        pr = self.procs[pid]
                        what = "sentinel" if st["buf"][0] is _SENTINEL else "item"
                        acts.append(Action("feed(%s,%s,%s)" % (q.name, pr.name, what), pr, "feed", self._mk_feed(q, pid), 2))
        # canonical order: the process that moved last first, then by priority class, then pid
        lm = self.last_moved
        acts.sort(key=lambda a: (a.prio, 0 if (a.proc is lm and a.kind != "feed") else 1, a.proc.pid, a.label))
        return acts

    def _proc_qstates(self, p):
        return [q.states[p.pid] for q in self.queues if p.pid in q.states]

    def execute(self, act):
        self.trace.append(act.label)
        self.nsteps += 1
        act.fn()
        self._eager()

    # -- action bodies -------------------------------------------------------------------

    def _mk_res(self, p, value):
        return lambda: self._resume(p, result=value)

    def _mk_exc(self, p, exc):
        return lambda: self._resume(p, exc=exc)

    def _mk_put(self, p, q, obj):
        def fn():
            st = q.state(p)
            if st["closed"]:
                self._resume(p, exc=ValueError("Queue %r is closed" % q.name))
                return
            if q.maxsize > 0:
                q.sem -= 1
            if st["feeder"] is None:
                st["feeder"] = "running"
            st["buf"].append(obj)
            p.nops += 1
            self._resume(p)

        return fn

    def _mk_feed(self, q, pid):
        def fn():
            st = q.states[pid]
            obj = st["buf"].pop(0)
            if obj is _SENTINEL:
                st["feeder"] = "done"
                return
            try:
                data = pickle.dumps(obj, protocol=pickle.HIGHEST_PROTOCOL)
            except Exception as e:  # the real feeder prints the error and drops the item
                self.feeder_errors += 1
                self.violations.append(("feeder-pickle-error", repr(e)))
                if q.maxsize > 0:
                    q.sem += 1
                return
            q.pipe.append(data)
            q.nfed += 1

        return fn

    def _mk_recv(self, p, q):
        def fn():
            data = q.pipe.pop(0)
            if q.maxsize > 0:
                q.sem += 1
            obj = pickle.loads(data)
            p.nops += 1
            self._resume(p, result=obj)

        return fn

    def _mk_set(self, p, ev):
        def fn():
            ev.flag = True
            p.nops += 1
            self._resume(p)

        return fn

    def _mk_clear(self, p, ev):
        def fn():
            ev.flag = False
            ev.cleared_ever = True
            p.nops += 1
            self._resume(p)

        return fn

    def _mk_exit(self, p):
        def fn():
            # process exit closes its queues; buffered data has been flushed already
            for st in self._proc_qstates(p):
                st["closed"] = True
                if st["feeder"] == "running":
                    st["feeder"] = "done"
            p.exitcode = p.exitcode_pending
            p.done = True
            self._resume(p)

        return fn

    def _mk_terminate(self, p, vp):
        def fn():
            t = vp._proc
            if t is not None and not t.done:
                # SIGTERM: the process dies where it stands; its feeder threads die with it
                t.killed = True
                t.pending = None
                t.local_cache = None
                if not t.thread_done:
                    t.sem.release()
                    self._await()
                for st in self._proc_qstates(t):
                    st["buf"] = []
                    st["closed"] = True
                    if st["feeder"] == "running":
                        st["feeder"] = "done"
                t.exitcode = -15
                t.done = True
            p.nops += 1
            self._resume(p)

        return fn

    def _lock_present(self, path):
        # an existence lock: the marker *file* is the lock (so that code which removes marker
        # files by path really affects who can acquire)
        if self.root:
            return os.path.exists(os.path.join(self.root, path))
        return path in self.locks

    def _mk_fsop(self, p, kind, path, real, args):
        def fn():
            try:
                r = real(*args)
            except OSError as e:
                self._resume(p, exc=e)
                return
            rel = self.rel(path)
            # the file system is part of the state: a removal / replacement must show in the key
            self.note_file(path)
            for a in args[1:]:
                if isinstance(a, str) and self.root and a.startswith(self.root):
                    self.note_file(a)
            if rel in self.locks and not self._lock_present(rel):
                holder = self.locks.pop(rel)
                if holder != p.pid:
                    self.violations.append(("lock-marker-removed-by-other-process", "%s removed the lock marker %s held by %s" % (p.name, rel, self.procs[holder].name)))
            self._resume(p, result=r)

        return fn

    def _mk_lock(self, p, path):
        def fn():
            self.locks[path] = p.pid
            if self.root:
                full = os.path.join(self.root, path)
                os.makedirs(os.path.dirname(full), exist_ok=True)
                fd = os.open(full, os.O_CREAT | os.O_EXCL | os.O_WRONLY)
                os.close(fd)
            self._resume(p)

        return fn

    def _marker_malformed(self, path):
        if not self.root:
            return False
        try:
            return os.path.getsize(os.path.join(self.root, path)) > 0
        except OSError:
            return False

    def _mk_break_and_lock(self, p, path):
        def fn():
            try:
                _REAL_UNLINK(os.path.join(self.root, path))
            except OSError:
                pass
            self.locks.pop(path, None)  # the previous holder is not told
            self.locks[path] = p.pid
            open(os.path.join(self.root, path), "wb").close()
            self._resume(p)

        return fn

    def _mk_flock(self, p, path):
        def fn():
            self.flocks[path] = p.pid
            if self.root:
                full = os.path.join(self.root, path)
                os.makedirs(os.path.dirname(full), exist_ok=True)
                open(full, "ab").close()  # flock users create the lock file if need be and never remove it
            self._resume(p)

        return fn

    def _mk_funlock(self, p, path):
        def fn():
            if self.flocks.get(path) == p.pid:
                self.flocks.pop(path, None)
            self._resume(p)

        return fn

    def _mk_unlock(self, p, path):
        def fn():
            if self.locks.get(path) != p.pid:
                self.violations.append(("unlock-not-held", "%s released %s" % (p.name, path)))
            self.locks.pop(path, None)
            if self.root:
                try:
                    _REAL_UNLINK(os.path.join(self.root, path))
                except FileNotFoundError:
                    pass
            self._resume(p)

        return fn

    def _mk_read(self, p, path):
        def fn():
            if path in self.writing:
                self.violations.append(("read-during-write", "%s read %s while %s was writing it" % (p.name, path, self.procs[self.writing[path]].name)))
            self._resume(p)

        return fn

    def _mk_wbegin(self, p, path):
        def fn():
            if path in self.writing:
                self.violations.append(("write-during-write", "%s and %s write %s concurrently" % (p.name, self.procs[self.writing[path]].name, path)))
            self.writing[path] = p.pid
            self._resume(p)

        return fn

    def _mk_wend(self, p, path):
        def fn():
            if self.writing.get(path) == p.pid:
                del self.writing[path]
            self._resume(p)

        return fn

    # -- teardown ------------------------------------------------------------------------

    def abort(self):
        self.aborting = True
        for p in self.procs:
            if not getattr(p, "thread_done", True):
                p.sem.release()
        for p in self.procs:
            p.thread.join(5.0 if not getattr(self, "spinning", False) else 0.2)
            if p.thread.is_alive() and not getattr(self, "spinning", False):
                raise VmpError("virtual process %s did not unwind" % p.name)

    def main(self):
        return self.procs[0]

    def note_file(self, path):
        """Record the content of a tile file after a write (for the state key)."""
        rel = self.rel(path)
        try:
            with open(path, "rb") as f:
                self.fs[rel] = hashlib.blake2b(f.read(), digest_size=8).hexdigest()
        except FileNotFoundError:
            self.fs.pop(rel, None)


# ---------------------------------------------------------------------------------------
# The objects toasty sees


class VQueue(object):
    def __init__(self, maxsize=0, **_kw):
        s = CURRENT
        if s is None:
            raise VmpError("mp.Queue() outside an execution")
        self.sched = s
        self.maxsize = maxsize
        self.sem = maxsize
        self.pipe = []
        self.states = {}
        self.nfed = 0
        self.name = "q%d" % len(s.queues)
        s.queues.append(self)

    def __deepcopy__(self, memo):
        return self

    def __reduce__(self):
        raise VmpError("queue handles travel through Process args only")

    def state(self, p):
        st = self.states.get(p.pid)
        if st is None:
            st = self.states[p.pid] = {"buf": [], "closed": False, "feeder": None}
        return st

    def put(self, obj, block=True, timeout=None):
        self.sched.op("put", self, obj, block, timeout)

    def put_nowait(self, obj):
        self.put(obj, False)

    def get(self, block=True, timeout=None):
        return self.sched.op("get", self, block, timeout)

    def get_nowait(self):
        return self.get(False)

    def close(self):
        self.sched.op("close", self)

    def join_thread(self):
        self.sched.op("join_thread", self)

    def cancel_join_thread(self):
        # process-local: this process will not wait for its feeder when the queue is closed / at exit
        p = current_proc()
        self.state(p)["cancel_join"] = True
        self.sched.op("local")

    def qsize(self):
        return self.maxsize - self.sem if self.maxsize > 0 else len(self.pipe)

    def empty(self):
        # a read of shared state (CPython: not self._poll())
        return self.sched.op("qempty", self)

    def full(self):
        return self.sched.op("qfull", self)


class VEvent(object):
    def __init__(self):
        s = CURRENT
        self.sched = s
        self.flag = False
        self.cleared_ever = False
        self.name = "e%d" % len(s.events)
        s.events.append(self)

    def __deepcopy__(self, memo):
        return self

    def set(self):
        self.sched.op("set", self)

    def clear(self):
        self.sched.op("clear", self)

    def is_set(self):
        return self.sched.op("is_set", self)

    def wait(self, timeout=None):
        return self.sched.op("wait", self, timeout)


class VProcess(object):
    def __init__(self, group=None, target=None, name=None, args=(), kwargs=None, daemon=None):
        self.sched = CURRENT
        self._target = target
        self._args = tuple(args)
        self._kwargs = dict(kwargs or {})
        self._proc = None
        self.daemon = daemon
        self.name = name

    def __deepcopy__(self, memo):
        return self

    def _pname(self):
        return self._proc.name if self._proc is not None else "?"

    def start(self):
        self.sched.op("start", self)

    def join(self, timeout=None):
        self.sched.op("join", self, timeout)

    @property
    def exitcode(self):
        return self.sched.op("exitcode", self)

    def is_alive(self):
        return self.sched.op("is_alive", self)

    @property
    def pid(self):
        return None if self._proc is None else 1000 + self._proc.pid

    def terminate(self):
        self.sched.op("terminate", self)

    kill = terminate


class VSoftFileLock(object):
    """Existence lock: try = O_CREAT|O_EXCL, release = unlink (DESIGN 3.1)."""

    def __init__(self, lock_file, timeout=-1, **_kw):
        self.sched = CURRENT
        self.lock_file = str(lock_file)
        self.timeout = timeout
        self._held = 0

    def acquire(self, timeout=None, poll_interval=0.05, **k):
        if self._held == 0:
            t = self.timeout if timeout is None else timeout
            if k.get("blocking") is False:
                t = 0
            self.sched.op("lock", self.sched.rel(self.lock_file), t)
        self._held += 1
        return self

    def break_lock(self):
        """Remove the marker whoever holds it (filelock >= 3.13)."""
        self.sched.op("fsop", "break_lock", self.lock_file, _break_marker, (self.lock_file,))

    def release(self, force=False):
        if self._held > 0:
            self._held -= 1
            if self._held == 0:
                self.sched.op("unlock", self.sched.rel(self.lock_file))

    def __enter__(self):
        self.acquire()
        return self

    def __exit__(self, *exc):
        self.release()
        return False

    @property
    def is_locked(self):
        return self._held > 0


class VFileLock(VSoftFileLock):
    """filelock.FileLock (flock/fcntl based): excludes other flock users of the same file, not marker locks."""

    def acquire(self, timeout=None, poll_interval=0.05, **k):
        if self._held == 0:
            self.sched.op("flock", self.sched.rel(self.lock_file))
        self._held += 1
        return self

    def release(self, force=False):
        if self._held > 0:
            self._held -= 1
            if self._held == 0:
                self.sched.op("funlock", self.sched.rel(self.lock_file))


def _break_marker(path):
    try:
        _REAL_UNLINK(path)
    except FileNotFoundError:
        pass


def pause(tag=""):
    """A visible scheduling point inside harness callbacks."""
    s = CURRENT
    if s is not None and current_proc() is not None:
        s.op("pause", tag)


# ---------------------------------------------------------------------------------------
# Installing / removing the layer


class Patched(object):
    """Context manager substituting the virtual layer for the duration of one execution."""

    def __init__(self, sched):
        self.sched = sched

    def __enter__(self):
        global CURRENT
        import multiprocessing
        import filelock
        from toasty import pyramid

        CURRENT = self.sched
        self.saved = (
            multiprocessing.Queue,
            multiprocessing.Event,
            multiprocessing.Process,
            filelock.SoftFileLock,
            pyramid.PyramidIO.read_image,
            pyramid.PyramidIO.write_image,
            sys.stdout,
        )
        multiprocessing.Queue = VQueue
        multiprocessing.Event = VEvent
        multiprocessing.Process = VProcess
        filelock.SoftFileLock = VSoftFileLock
        self.real_flock_classes = (filelock.FileLock, getattr(filelock, "UnixFileLock", None))
        filelock.FileLock = VFileLock
        if self.real_flock_classes[1] is not None:
            filelock.UnixFileLock = VFileLock
        # process role: the main virtual process is a top-level process, the others are its children
        self.real_parent_process = multiprocessing.parent_process

        def parent_process():
            pr = current_proc()
            if pr is None:
                return self.real_parent_process()
            return None if getattr(pr, "parent_pid", None) is None else _ParentHandle(100000 + pr.parent_pid)

        multiprocessing.parent_process = parent_process
        orig_read, orig_write = self.saved[4], self.saved[5]
        sched = self.sched

        def read_image(pio, pos, default="none", masked_mode=None, format=None):
            if current_proc() is not None and sched.io_points:
                p = pio.tile_path(pos, format=format, makedirs=False)
                sched.op("read", sched.rel(p))
            return orig_read(pio, pos, default=default, masked_mode=masked_mode, format=format)

        def write_image(pio, pos, image, format=None, mode=None, min_value=None, max_value=None):
            inproc = current_proc() is not None
            p = pio.tile_path(pos, format=format or pio.get_default_format())
            if inproc and sched.io_points:
                sched.op("wbegin", sched.rel(p))
            try:
                return orig_write(pio, pos, image, format=format, mode=mode, min_value=min_value, max_value=max_value)
            finally:
                if inproc:
                    sched.note_file(p)
                    if sched.io_points and not sched.aborting:
                        sched.op("wend", sched.rel(p))

        pyramid.PyramidIO.read_image = read_image
        pyramid.PyramidIO.write_image = write_image
        sys.stdout = _Null()
        # removing a file under the scratch root is an operation other processes can observe
        self.real_unlink = os.unlink
        self.real_remove = os.remove
        real_unlink = self.real_unlink

        def unlink(path, *a, **k):
            pr = current_proc()
            if pr is not None and sched.root and isinstance(path, str) and path.startswith(sched.root) and not sched.aborting and not pr.in_fsop:
                pr.in_fsop = True
                try:
                    return sched.op("fsop", "unlink", path, real_unlink, (path,) + a)
                finally:
                    pr.in_fsop = False
            return real_unlink(path, *a, **k)

        os.unlink = unlink
        os.remove = unlink
        # renaming a file into place under the scratch root is visible to the other processes as well
        self.real_replace, self.real_rename = os.replace, os.rename

        def _mover(real, label):
            def move(src, dst, *a, **k):
                pr = current_proc()
                if pr is not None and sched.root and isinstance(src, str) and isinstance(dst, str) and dst.startswith(sched.root) and not sched.aborting and not pr.in_fsop:
                    pr.in_fsop = True
                    try:
                        return sched.op("fsop", label, dst, real, (src, dst) + a)
                    finally:
                        pr.in_fsop = False
                return real(src, dst, *a, **k)

            return move

        os.replace = _mover(self.real_replace, "replace")
        os.rename = _mover(self.real_rename, "rename")
        # creating / opening a file by descriptor under the scratch root (home-made marker files): visible as well,
        # so that a check-then-create sequence can be interleaved
        self.real_open = os.open
        real_open = self.real_open

        def os_open(path, flags, *a, **k):
            pr = current_proc()
            if pr is not None and sched.root and isinstance(path, str) and path.startswith(sched.root) and not sched.aborting and not pr.in_fsop and not k:
                pr.in_fsop = True
                try:
                    return sched.op("fsop", "open", path, real_open, (path, flags) + a)
                finally:
                    pr.in_fsop = False
            return real_open(path, flags, *a, **k)

        os.open = os_open
        # removing a directory under the scratch root: visible (another process may be about to create a file in it)
        self.real_rmdir = os.rmdir
        real_rmdir = self.real_rmdir

        def rmdir(path, *a, **k):
            pr = current_proc()
            if pr is not None and sched.root and isinstance(path, str) and path.startswith(sched.root) and not sched.aborting and not pr.in_fsop and not k:
                pr.in_fsop = True
                try:
                    return sched.op("fsop", "rmdir", path, real_rmdir, (path,) + a)
                finally:
                    pr.in_fsop = False
            return real_rmdir(path, *a, **k)

        os.rmdir = rmdir
        # creating a file (open for writing) under the scratch root as a scheduling point of its own, for harnesses
        # that ask for it (create_points): the directory it is created in may have been removed meanwhile
        import builtins

        self.real_builtin_open = builtins.open
        real_bopen = self.real_builtin_open

        def b_open(file, mode="r", *a, **k):
            if sched.create_points and isinstance(file, str) and isinstance(mode, str) and mode[:1] in "wxa" and sched.root and file.startswith(sched.root):
                pr = current_proc()
                if pr is not None and not sched.aborting and not pr.in_fsop:
                    pr.in_fsop = True
                    try:
                        return sched.op("fsop", "create", file, lambda *aa: real_bopen(*aa, **k), (file, mode) + a)
                    finally:
                        pr.in_fsop = False
            return real_bopen(file, mode, *a, **k)

        if sched.create_points:
            builtins.open = b_open
        # process identity: every virtual process has its own pid, and its parent's as ppid (what fork gives)
        self.real_getpid, self.real_getppid = os.getpid, os.getppid
        real_getpid, real_getppid = self.real_getpid, self.real_getppid

        def getpid():
            pr = current_proc()
            return real_getpid() if pr is None else 100000 + pr.pid

        def getppid():
            pr = current_proc()
            if pr is None or getattr(pr, "parent_pid", None) is None:
                return real_getppid()
            return 100000 + pr.parent_pid

        os.getpid, os.getppid = getpid, getppid
        # waiting made visible: a sleep inside a virtual process hands the baton back (a polling loop - retrying a
        # marker file, waiting for a file to appear - becomes a cycle of the state graph instead of a hang)
        import time as _time

        self.real_sleep = _time.sleep
        real_sleep = self.real_sleep

        def sleep(secs):
            pr = current_proc()
            if pr is not None and not sched.aborting and not pr.in_fsop:
                sched.op("pause", "sleep")
                return None
            return real_sleep(secs)

        _time.sleep = sleep
        self.real_active_children = multiprocessing.active_children

        def active_children():
            if current_proc() is None:
                return []
            return list(sched.op("active_children"))

        multiprocessing.active_children = active_children
        return self

    def __exit__(self, *exc):
        global CURRENT
        import multiprocessing
        import filelock
        from toasty import pyramid

        (
            multiprocessing.Queue,
            multiprocessing.Event,
            multiprocessing.Process,
            filelock.SoftFileLock,
            pyramid.PyramidIO.read_image,
            pyramid.PyramidIO.write_image,
            sys.stdout,
        ) = self.saved
        filelock.FileLock = self.real_flock_classes[0]
        if self.real_flock_classes[1] is not None:
            filelock.UnixFileLock = self.real_flock_classes[1]
        multiprocessing.parent_process = self.real_parent_process
        os.unlink = self.real_unlink
        os.remove = self.real_remove
        os.replace, os.rename = self.real_replace, self.real_rename
        os.open = self.real_open
        os.rmdir = self.real_rmdir
        import builtins

        builtins.open = self.real_builtin_open
        os.getpid, os.getppid = self.real_getpid, self.real_getppid
        import time as _time

        _time.sleep = self.real_sleep
        multiprocessing.active_children = self.real_active_children
        CURRENT = None
        return False


class _ParentHandle(object):
    def __init__(self, pid):
        self.pid = pid
        self.name = "MainProcess"

    def is_alive(self):
        return True


class _Null(object):
    def write(self, s):
        return len(s)

    def flush(self):
        pass

    def isatty(self):
        return False
