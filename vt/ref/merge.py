"""Reference model of the cascade merge (from the property statement): the 512x512
display-orientation mosaic of the four children, child (2x+i, 2y+j) in quadrant column i /
row j, missing children undefined; 2x2 block reduction: floating point = mean of the
non-NaN pixels (NaN iff all four are), integer and colour = mean of the four stored values
computed in float64 and cast to the data type."""
import numpy as np


def undefined_fill(dtype, channels):
    return np.nan if np.dtype(dtype).kind == "f" else 0


def mosaic(children, dtype, channels):
    """children: dict (i, j) -> display-orientation 256x256[xC] array or None."""
    shape = (512, 512) + ((channels,) if channels else ())
    m = np.empty(shape, dtype=dtype)
    m[...] = undefined_fill(dtype, channels)
    for (i, j), a in children.items():
        if a is not None:
            m[j * 256 : (j + 1) * 256, i * 256 : (i + 1) * 256] = a
    return m


def reduce2x2(m):
    dt = m.dtype
    s = (256, 2, 256, 2) + m.shape[2:]
    blocks = m.reshape(s).astype(np.float64)
    if dt.kind == "f":
        cnt = np.sum(~np.isnan(blocks), axis=(1, 3))
        tot = np.nansum(blocks, axis=(1, 3))
        with np.errstate(invalid="ignore", divide="ignore"):
            out = tot / cnt
        out[cnt == 0] = np.nan
        return out.astype(dt)
    return (blocks.sum(axis=(1, 3)) / 4.0).astype(dt)


def all_undefined(a, rgba):
    if a.dtype.kind == "f":
        return bool(np.all(np.isnan(a)))
    if rgba:
        return bool(np.all(a[..., 3] == 0))
    return False


def cascade(leaves, start, dtype, channels):
    """leaves: dict (n, x, y) -> display-orientation array at level `start`.
    Returns dict of every tile (all levels) the cascade should leave on disk."""
    tiles = dict(leaves)
    rgba = channels == 4
    for n in range(start - 1, -1, -1):
        for y in range(2**n):
            for x in range(2**n):
                kids = {(i, j): tiles.get((n + 1, 2 * x + i, 2 * y + j)) for i in (0, 1) for j in (0, 1)}
                if all(v is None for v in kids.values()):
                    continue
                merged = reduce2x2(mosaic(kids, dtype, channels))
                if all_undefined(merged, rgba):
                    continue
                tiles[(n, x, y)] = merged
    return tiles
