"""Reference TOAST geometry in 3-D unit vectors, from the documented layout only:

north pole at the centre of the square, south pole at its four corners, equator on the
inscribed diamond (edge midpoints); for sky maps longitude 0 towards the right, 90 up,
180 left, 270 down (counter-clockwise); planetary maps rotated by 180 degrees in
longitude.  Each tile is subdivided by the (great-circle) midpoints of its edges and of
its diagonal -- the diagonal being the octahedron edge (the equator chord) that the
level-1 quadrant contains.

Vector convention: (cos lat cos lon, cos lat sin lon, sin lat).  Arrays are indexed
[y, x] with y increasing downwards in the displayed square.
"""
import functools

import numpy as np


def vec(lon, lat):
    lon = np.asarray(lon, dtype=float)
    lat = np.asarray(lat, dtype=float)
    return np.stack([np.cos(lat) * np.cos(lon), np.cos(lat) * np.sin(lon), np.sin(lat)], axis=-1)


def lonlat(v):
    v = np.asarray(v)
    lon = np.arctan2(v[..., 1], v[..., 0]) % (2 * np.pi)
    lat = np.arcsin(np.clip(v[..., 2], -1, 1))
    return lon, lat


def _norm(v):
    return v / np.linalg.norm(v, axis=-1, keepdims=True)


def mid(a, b):
    return _norm(a + b)


def level1(planetary=False):
    """corners[y, x, k, :] with k = upper-left, upper-right, lower-right, lower-left as
    displayed; increasing[y, x] = the diagonal runs from lower-left to upper-right."""
    off = np.pi if planetary else 0.0
    N = vec(0.0, np.pi / 2)
    S = vec(0.0, -np.pi / 2)
    R = vec(0.0 + off, 0.0)  # right edge midpoint
    U = vec(np.pi / 2 + off, 0.0)  # top
    L = vec(np.pi + off, 0.0)  # left
    D = vec(3 * np.pi / 2 + off, 0.0)  # bottom
    c = np.empty((2, 2, 4, 3))
    c[0, 0] = [S, U, N, L]  # top-left quadrant
    c[0, 1] = [U, S, R, N]  # top-right
    c[1, 0] = [L, N, D, S]  # bottom-left
    c[1, 1] = [N, R, S, D]  # bottom-right
    inc = np.array([[True, False], [False, True]])
    return c, inc


def subdivide(c, inc):
    """One level down: c[Y, X, 4, 3] -> [2Y, 2X, 4, 3]."""
    ul, ur, lr, ll = c[..., 0, :], c[..., 1, :], c[..., 2, :], c[..., 3, :]
    to, ri, bo, le = mid(ul, ur), mid(ur, lr), mid(lr, ll), mid(ll, ul)
    ce = np.where(inc[..., None], mid(ll, ur), mid(ul, lr))
    ny, nx = c.shape[:2]
    out = np.empty((2 * ny, 2 * nx, 4, 3))
    out[0::2, 0::2] = np.stack([ul, to, ce, le], axis=-2)
    out[0::2, 1::2] = np.stack([to, ur, ri, ce], axis=-2)
    out[1::2, 0::2] = np.stack([le, ce, bo, ll], axis=-2)
    out[1::2, 1::2] = np.stack([ce, ri, lr, bo], axis=-2)
    inc2 = np.repeat(np.repeat(inc, 2, axis=0), 2, axis=1)
    return out, inc2


@functools.lru_cache(maxsize=24)
def tiles_at(n, planetary=False):
    """All tiles of level n >= 1: (corners[2^n, 2^n, 4, 3], increasing[2^n, 2^n])."""
    if n == 1:
        return level1(planetary)
    c, inc = tiles_at(n - 1, planetary)
    return subdivide(c, inc)


def single(n, x, y, planetary=False):
    """One tile by descending its path only: (corners[4, 3], increasing)."""
    c, inc = level1(planetary)
    for lev in range(1, n + 1):
        sx = (x >> (n - lev)) & 1
        sy = (y >> (n - lev)) & 1
        c1, i1 = c[sy : sy + 1, sx : sx + 1], inc[sy : sy + 1, sx : sx + 1]
        if lev == n:
            return c1[0, 0], bool(i1[0, 0])
        c, inc = subdivide(c1, i1)


def centre(c, inc):
    """Centre of a tile = the midpoint of its diagonal (the vertex its four children share)."""
    ul, ur, lr, ll = c[..., 0, :], c[..., 1, :], c[..., 2, :], c[..., 3, :]
    return np.where(np.asarray(inc)[..., None], mid(ll, ur), mid(ul, lr))


def pixel_grid(n, x, y, planetary=False, levels=8):
    """Unit vectors [2^levels, 2^levels, 3] of the centres of the tiles `levels` deeper
    than tile (n, x, y): the documented pixel grid of that tile."""
    if n == 0:
        c, inc = level1(planetary)
        levels -= 1
    else:
        c0, i0 = single(n, x, y, planetary)
        c, inc = c0[None, None], np.array([[i0]])
    for _ in range(levels):
        c, inc = subdivide(c, inc)
    return centre(c, inc)


def contains(c, p, tol=1e-9):
    """Is unit vector p inside the spherical quadrilateral with corners c[4, 3]?
    (within tol on the boundary)."""
    cen = _norm(c.sum(axis=0))
    ok = True
    for k in range(4):
        a, b = c[k], c[(k + 1) % 4]
        # a x b = a x (b - a): for the nearly parallel corners of deep tiles the difference is exact and
        # the normal keeps its full relative accuracy (a x b itself cancels catastrophically)
        nrm = np.cross(a, b - a)
        ln = np.linalg.norm(nrm)
        if ln < 1e-15:
            continue
        nrm = nrm / ln
        s = np.sign(np.dot(nrm, cen))
        if s == 0:
            continue
        ok = ok and (s * np.dot(nrm, p) >= -tol)
    return ok


def contains_many(c, p, tol=1e-9):
    """Vectorised: c[..., 4, 3], p[..., 3] -> bool[...]."""
    cen = _norm(c.sum(axis=-2))
    ok = np.ones(c.shape[:-2], bool)
    for k in range(4):
        a, b = c[..., k, :], c[..., (k + 1) % 4, :]
        nrm = np.cross(a, b - a)
        ln = np.linalg.norm(nrm, axis=-1, keepdims=True)
        nrm = nrm / np.where(ln < 1e-15, 1, ln)
        s = np.sign(np.sum(nrm * cen, axis=-1))
        ok &= (s * np.sum(nrm * p, axis=-1) >= -tol) | (s == 0) | (ln[..., 0] < 1e-15)
    return ok


def tri_area(a, b, c):
    """Spherical triangle area (van Oosterom & Strackee)."""
    num = np.abs(np.sum(a * np.cross(b, c), axis=-1))
    den = 1 + np.sum(a * b, axis=-1) + np.sum(b * c, axis=-1) + np.sum(c * a, axis=-1)
    return 2 * np.arctan2(num, den)


def tile_area(c, inc):
    ul, ur, lr, ll = c[..., 0, :], c[..., 1, :], c[..., 2, :], c[..., 3, :]
    a_inc = tri_area(ul, ur, ll) + tri_area(ur, lr, ll)
    a_dec = tri_area(ul, ur, lr) + tri_area(ul, ll, lr)
    return np.where(inc, a_inc, a_dec)


def angdist(a, b):
    """Angular distance between unit vectors (stable for small angles)."""
    return 2 * np.arcsin(np.clip(np.linalg.norm(np.asarray(a) - np.asarray(b), axis=-1) / 2, 0, 1))
