"""Reference model of study tiling, from the property statement: the smallest power-of-two
square of at least 256 pixels containing the image, image centred with offsets rounded
down, cut into 256-pixel tiles."""
import numpy as np


def p2n(w, h):
    p = 256
    while p < max(w, h):
        p *= 2
    return p


def levels(w, h):
    return int(round(np.log2(p2n(w, h) // 256)))


def offsets(w, h):
    p = p2n(w, h)
    return (p - w) // 2, (p - h) // 2


def canvas(image, fill):
    """image (h, w[, c]) pasted into the p2n x p2n canvas of `fill`."""
    h, w = image.shape[:2]
    p = p2n(w, h)
    gx0, gy0 = offsets(w, h)
    shape = (p, p) + image.shape[2:]
    c = np.empty(shape, dtype=image.dtype)
    c[...] = fill
    c[gy0 : gy0 + h, gx0 : gx0 + w] = image
    return c
