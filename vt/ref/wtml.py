"""Expansion of a WTML tile URL template the way a WWT client does it:
{1} = level, {2} = tile X, {3} = tile Y (written from the WTML documentation)."""


def expand(url, level, x, y):
    return url.replace("{1}", str(level)).replace("{2}", str(x)).replace("{3}", str(y))
