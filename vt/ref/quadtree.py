"""Reference model of the tile quadtree (written from the documentation, not the code).

Positions are (n, x, y); the children of (n, x, y) are (n+1, 2x+i, 2y+j) in the order
top-left, top-right, bottom-left, bottom-right.  A filter is a predicate on positions of
level >= 1 and is consulted only on tiles whose ancestors (level >= 1) it accepted.
"""
from collections import namedtuple

P = namedtuple("P", "n x y")


def children(p):
    n, x, y = p
    return [P(n + 1, 2 * x, 2 * y), P(n + 1, 2 * x + 1, 2 * y), P(n + 1, 2 * x, 2 * y + 1), P(n + 1, 2 * x + 1, 2 * y + 1)]


def parent(p):
    return P(p[0] - 1, p[1] // 2, p[2] // 2)


def is_descendant_or_self(p, a):
    if p[0] < a[0]:
        return False
    s = p[0] - a[0]
    return (p[1] >> s) == a[1] and (p[2] >> s) == a[2]


def all_positions(depth):
    out = []
    for n in range(depth + 1):
        for y in range(2**n):
            for x in range(2**n):
                out.append(P(n, x, y))
    return out


class Model(object):
    """depth, optional filter (set of accepted positions or predicate), apex."""

    def __init__(self, depth, accepted=None, apex=P(0, 0, 0)):
        self.depth = depth
        self.apex = P(*apex)
        if accepted is None:
            self.acc = lambda p: True
        elif callable(accepted):
            self.acc = accepted
        else:
            s = set(tuple(a) for a in accepted)
            self.acc = lambda p: tuple(p) in s
        self.visited = []  # every in-scope position (path accepted, at/below the apex), post-order
        self.leaves = []
        self.ops = []  # post-order list of live non-leaf tiles at/below the apex
        self.live = set()
        self.live_children = {}
        self._walk_from_apex()

    def _path_accepted(self, p):
        # every ancestor-or-self at level >= 1 accepted
        q = p
        while q[0] >= 1:
            if not self.acc(q):
                return False
            q = parent(q)
        return True

    def _walk_from_apex(self):
        if self.apex[0] > self.depth:
            return
        if self.apex[0] >= 1 and not self._path_accepted(self.apex):
            return
        self._rec(self.apex)

    def _rec(self, p):
        """returns True iff p is live; assumes the path to p is accepted"""
        if p[0] == self.depth:
            self.visited.append(p)
            self.leaves.append(p)
            self.live.add(p)
            return True
        lc = []
        for c in children(p):
            if self.acc(c) and self._rec(c):
                lc.append(c)
        self.visited.append(p)
        if lc:
            self.live.add(p)
            self.live_children[p] = lc
            self.ops.append(p)
            return True
        return False

    def counts(self):
        return len(self.leaves), len(self.live), len(self.ops)
