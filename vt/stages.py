"""Harnesses driving toasty's real parallel stages under vmp (shared by C01, C03, C19,
and the schedule clauses of C02/C06/C09/C14)."""
import copy
import json
import os
import shutil
import tempfile

import numpy as np

from . import vmp
from .explore import Harness, explore, run_labels
from .fixtures import scratch_root, quiet
from .harness import Part
from .monitors import DeliveryMonitor, Recorder, WalkMonitor
from .ref import quadtree

ASSUMPTIONS = [
    "virtual Queue/Event/Process semantics modelled on CPython 3.12 multiprocessing (validated against real multiprocessing by selftest/vmp_conformance.py)",
    "a receive timeout fires at a moment when the pipe is empty; configurations marked contended_timeouts additionally let it fire with data in the pipe while another process waits on the same queue (reader-lock contention)",
    "processes share no memory: fork is a deep copy of the Process arguments; choice points are the communication operations only",
    "worker processes running the same target are interchangeable (symmetry reduction); key soundness is checked at every state revisit",
    "termination is judged on the finite state graph: from every reachable state a state where the stage has returned must be reachable (fair scheduling)",
]

# accepted-position sets for TOAST-filtered pyramids (positions at level >= 1)
FILTER_5LEAVES = [
    (1, 0, 0), (2, 0, 0), (2, 1, 0), (2, 0, 1),  # three leaves under (1,0,0)
    (1, 1, 1), (2, 2, 2), (2, 3, 3),  # two leaves under (1,1,1)
    (1, 0, 1),  # accepted but none of its children
]


def all_but(depth, dropped):
    """Every position of levels 1..depth except those listed (and nothing below them): a filter for a TOAST pyramid
    with a leaf count that is not a power of four."""
    dropped = set(tuple(d) for d in dropped)
    out = []
    for n in range(1, depth + 1):
        for y in range(2**n):
            for x in range(2**n):
                if not any((m, x >> (n - m), y >> (n - m)) in dropped for m in range(1, n + 1)):
                    out.append((n, x, y))
    return out


class InjectedFault(RuntimeError):
    pass


class InjectedOSError(FileNotFoundError):
    """An OSError-family failure (missing file, permission, disk full...)."""


class InjectedValueError(ValueError):
    """A ValueError-family failure (e.g. numpy refusing a truncated tile)."""


def _local_exception_class():
    class InjectedLocalError(Exception):
        """An exception class defined inside a function, holding a lock: it cannot be pickled (what a callback's own
        error types often are)."""

        def __init__(self, *a):
            Exception.__init__(self, *a)
            import threading

            self.guard = threading.Lock()

    return InjectedLocalError


InjectedLocalError = _local_exception_class()
FAULTS = {"unpicklable": InjectedLocalError, "runtime": InjectedFault, "oserror": InjectedOSError, "valueerror": InjectedValueError, "kill": vmp.Killed}
INJECTED = (InjectedFault, InjectedOSError, InjectedValueError, InjectedLocalError)


class FalsyAccepted(list):
    """A list of accepted positions whose filter is to be a callable OBJECT that is falsy (a region set that
    reports len() == 0, a memo whose len() is its cache size): a filter is a filter whatever bool() says."""


class _ObjectFilter(object):
    def __init__(self, accepted):
        self.s = set(tuple(a) for a in accepted)

    def __call__(self, tile):
        return tuple(tile.pos) in self.s

    def __len__(self):
        return 0


def _mk_filter(accepted):
    if isinstance(accepted, FalsyAccepted):
        return _ObjectFilter(accepted)
    s = set(tuple(a) for a in accepted)

    def tile_filter(tile):
        return tuple(tile.pos) in s

    return tile_filter


def make_pyramid(kind, depth, accepted=None, apex=None, coordsys=None, traversed_first=False):
    from toasty.pyramid import Pyramid, Pos
    from toasty.toast import ToastCoordinateSystem

    cs = None
    if coordsys == "planetary":
        cs = ToastCoordinateSystem.PLANETARY
    if kind == "generic":
        pyr = Pyramid.new_generic(depth)
    elif kind == "toast":
        pyr = Pyramid.new_toast(depth, coordsys=cs)
    elif kind == "filtered":
        pyr = Pyramid.new_toast_filtered(depth, _mk_filter(accepted), coordsys=cs)
    else:
        raise ValueError(kind)
    if traversed_first:
        # the whole pyramid is counted and its leaves visited once before it is restricted to the apex (one object,
        # a history of calls): what those traversals learnt about the whole sky must not outlive the restriction
        pyr.count_leaf_tiles()
        pyr.count_operations()
        pyr.visit_leaves(lambda pos, tile: None, parallel=1)
    if apex is not None and tuple(apex) != (0, 0, 0):
        pyr.subpyramid(Pos(*apex))
    return pyr


def ref_model(kind, depth, accepted=None, apex=None):
    return quadtree.Model(depth, accepted if kind == "filtered" else None, apex or (0, 0, 0))


def _foreign_idle(ev):
    ev.wait()


class StageHarness(Harness):
    stage = "stage"
    io_points = False
    fail_item = None  # C19: the item whose processing raises
    fail_exc = "runtime"  # ... and the exception family it raises
    source_fail = None  # C19: the input image (index) that cannot be LOADED: the collection raises in the dispatching process
    max_states = 400000
    seed = 0

    def __init__(self, **kw):
        self.W = 2
        self.pipe_capacity = None
        self.__dict__.update(kw)
        self.name = "%s(%s)" % (self.stage, ",".join("%s=%s" % (k, _short(v)) for k, v in sorted(kw.items())))
        self._expected = None

    def describe(self):
        d = {k: v for k, v in self.__dict__.items() if not k.startswith("_") and k not in ("name", "seed")}
        d["stage"] = self.stage
        return d

    # items the serial mode processes (computed once; compared with the reference model)
    def expected_items(self):
        raise NotImplementedError

    def with_foreign_child(self, main):
        """Process-level circumstances of the caller (C19, C03).  C19: the calling process may own other live children (an idle helper started earlier) while
        the stage runs; failure detection must not depend on how many children the process has."""
        if getattr(self, "quiet_messages", False):
            # the documented public switch that `toasty pipeline process-todos` turns off for the rest of the
            # process: error reporting must not depend on it
            inner0 = main

            def main_q():
                from toasty import par_util

                par_util.SHOW_INFORMATIONAL_MESSAGES = False
                return inner0()

            main = main_q
        if not getattr(self, "foreign_child", False):
            return main

        def main2():
            import multiprocessing

            ev = multiprocessing.Event()
            fp = multiprocessing.Process(target=_foreign_idle, args=(ev,))
            fp.start()
            try:
                return main()
            finally:
                ev.set()
                fp.join()

        return main2

    def _maybe_fail(self, key):
        # fail_item == "all": the processing of EVERY item raises (a callback that cannot work at all: an output
        # directory that is not writable, a sampler with a bug)
        if self.fail_item is not None and (self.fail_item == "all" or tuple(key) == tuple(self.fail_item)):
            raise FAULTS[self.fail_exc]("injected failure at item %r" % (key,))

    def at_terminal(self, sched, mon):
        viol = []
        main = sched.main()
        exp = set(self.expected_items())
        got = set(mon.delivered) if hasattr(mon, "delivered") else set(mon.completed)
        alive = [p.name for p in sched.procs[1:] if not p.done]
        if self.source_fail is not None:
            if main.outcome[0] == "return":
                viol.append(("returns-normally-after-input-error", "stage returned normally although input image %r could not be loaded; %d of %d inputs in the tiles" % (self.source_fail, len(got), len(exp))))
            return viol, (main.outcome[0], main.outcome[1] if main.outcome[0] == "raise" else None, len(got))
        if self.fail_item is not None:
            # C19: the stage must fail visibly
            if main.outcome[0] == "return":
                viol.append(("returns-normally-after-item-error", "stage returned normally although processing of item %r raised; processed %d of %d items" % (self.fail_item, len(got), len(exp))))
            obs = (main.outcome[0], main.outcome[1] if main.outcome[0] == "raise" else None, len(got))
            return viol, obs
        if main.outcome[0] != "return":
            viol.append(("stage-raised", "stage raised %s: %s" % (main.outcome[1], main.outcome[2])))
        missing = sorted(exp - got)
        extra = sorted(got - exp)
        if missing:
            viol.append(("items-lost", "stage returned with %d of %d items never processed, e.g. %r" % (len(missing), len(exp), missing[0])))
        if extra:
            viol.append(("unexpected-items", "items processed that serial mode does not process: %r" % (extra[:3],)))
        if alive:
            viol.append(("returned-before-workers-exited", "stage returned while workers %r had not exited" % (alive,)))
        obs = (main.outcome[0], len(missing), len(alive))
        return viol, obs


def _short(v):
    if isinstance(v, (list, tuple)) and len(v) > 4:
        return "<%d>" % len(v)
    return str(v).replace(" ", "")


class VisitLeaves(StageHarness):
    stage = "visit_leaves"

    def _pyr(self):
        return make_pyramid(self.kind, self.depth, getattr(self, "accepted", None), getattr(self, "apex", None), getattr(self, "coordsys", None), getattr(self, "traversed_first", False))

    def expected_items(self):
        if self._expected is None:
            rec = {}

            def cb(pos, tile):
                rec[tuple(pos)] = tile

            with quiet():
                self._pyr().visit_leaves(cb, parallel=1)
            self._expected = rec
            m = ref_model(self.kind, self.depth, getattr(self, "accepted", None), getattr(self, "apex", None))
            self._ref = set(tuple(p) for p in m.leaves)
        return self._expected

    def serial_vs_ref(self):
        exp = set(self.expected_items())
        if exp != self._ref:
            return "serial visit_leaves delivers %r, reference quadtree says %r" % (sorted(exp ^ self._ref)[:4], len(self._ref))
        return None

    def fresh(self):
        exp = self.expected_items()
        h = self

        def check(key, tile):
            want = exp.get(key)
            if key not in exp:
                return None
            if (tile is None) != (want is None):
                return "item %r delivered with tile %r, serial mode delivers %r" % (key, tile, want)
            if tile is not None:
                if tuple(tile.pos) != key:
                    return "item %r delivered with the geometry of %r" % (key, tuple(tile.pos))
                if not np.array_equal(np.asarray(tile.corners), np.asarray(want.corners)) or tile.increasing != want.increasing:
                    return "item %r delivered with corners differing from its own tile's" % (key,)
            return None

        mon = DeliveryMonitor(check=check)

        def fn(mon, pos, tile):
            h._maybe_fail(pos)
            mon.deliver(tuple(pos), tile)

        cb = Recorder(mon, fn)
        pyr = self._pyr()
        W = self.W

        def main():
            if W == 1:
                # force the parallel implementation with a single worker
                total = pyr.count_leaf_tiles()
                pyr._visit_leaves_parallel(cb, total, False, 1)
            else:
                pyr.visit_leaves(cb, parallel=W)

        return self.with_foreign_child(main), mon, None


class Walk(StageHarness):
    stage = "walk"
    with_pause = False

    def _pyr(self):
        return make_pyramid(self.kind, self.depth, getattr(self, "accepted", None), getattr(self, "apex", None), getattr(self, "coordsys", None))

    def model(self):
        return ref_model(self.kind, self.depth, getattr(self, "accepted", None), getattr(self, "apex", None))

    def expected_items(self):
        if self._expected is None:
            self._expected = [tuple(p) for p in self.model().ops]
        return self._expected

    def fresh(self):
        mon = WalkMonitor(self.model())
        h = self

        def fn(mon, pos):
            mon.start(pos)
            if h.with_pause:
                vmp.pause("cb")
            h._maybe_fail(pos)
            mon.end(pos)

        cb = Recorder(mon, fn)
        pyr = self._pyr()
        W = self.W

        def main():
            if W == 1:
                pyr._walk_parallel(cb, False, 1)
            else:
                pyr.walk(cb, parallel=W)

        return self.with_foreign_child(main), mon, None

    def at_terminal(self, sched, mon):
        viol, obs = StageHarness.at_terminal(self, sched, mon)
        if self.fail_item is None:
            for t, c in mon.completed.items():
                if c != 1:
                    viol.append(("callback-count", "callback completed %d times for %r" % (c, t)))
        return viol, obs


class WalkTwice(Walk):
    """Two parallel walks in one process, one after the other (state surviving a walk must not affect
    the next one): the first over a sparse filtered pyramid, the second is the monitored one."""

    stage = "walk_after_walk"

    def fresh(self):
        main2, mon, root = Walk.fresh(self)
        first = make_pyramid("filtered", self.first_depth, self.first_accepted, None, None)
        W = self.W

        def noop(pos):
            return None

        def main():
            first.walk(noop, parallel=W)
            main2()

        return main, mon, root


class CountsVsParallel(StageHarness):
    """C13 with worker processes: ONE pyramid object reports its counts, is then walked in parallel and has its
    leaves visited in parallel (two parallel operations of one process, in the given order); what the workers
    visited is what was reported and what the reference quadtree says."""

    stage = "counts_vs_parallel"
    order = ("walk", "leaves")

    def _pyr(self):
        return make_pyramid(self.kind, self.depth, getattr(self, "accepted", None), getattr(self, "apex", None), getattr(self, "coordsys", None))

    def expected_items(self):
        if self._expected is None:
            m = ref_model(self.kind, self.depth, getattr(self, "accepted", None), getattr(self, "apex", None))
            self._expected = [("op",) + tuple(p) for p in m.ops] + [("leaf",) + tuple(p) for p in m.leaves]
            self._nops, self._nleaves = len(m.ops), len(m.leaves)
        return self._expected

    def fresh(self):
        self.expected_items()
        mon = DeliveryMonitor()
        pyr = self._pyr()
        W = self.W
        reported = {}
        self._reported = reported

        def fn_op(mon, pos):
            mon.deliver(("op",) + tuple(pos))

        def fn_leaf(mon, pos, tile):
            mon.deliver(("leaf",) + tuple(pos))

        cb_op, cb_leaf = Recorder(mon, fn_op), Recorder(mon, fn_leaf)
        order = self.order

        def main():
            reported["ops"] = pyr.count_operations()
            reported["leaves"] = pyr.count_leaf_tiles()
            reported["live"] = pyr.count_live_tiles()
            for what in order:
                if what == "walk":
                    pyr.walk(cb_op, parallel=W)
                else:
                    pyr.visit_leaves(cb_leaf, parallel=W)

        return self.with_foreign_child(main), mon, None

    def at_terminal(self, sched, mon):
        viol, obs = StageHarness.at_terminal(self, sched, mon)
        r = self._reported
        nops = sum(1 for k in mon.delivered if k[0] == "op")
        nleaves = sum(1 for k in mon.delivered if k[0] == "leaf")
        if sched.main().outcome[0] == "return" and (r.get("ops") != nops or r.get("leaves") != nleaves or r.get("live") != nops + nleaves):
            viol.append(("reported-counts-differ-from-visits", "reported operations/leaves/live = %r/%r/%r; the workers visited %d operations and %d leaves" % (r.get("ops"), r.get("leaves"), r.get("live"), nops, nleaves)))
        return viol, obs


class Transform(StageHarness):
    stage = "transform"

    def expected_items(self):
        if self._expected is None:
            self._expected = [tuple(p) for p in quadtree.all_positions(self.depth)]
        return self._expected

    def fresh(self):
        from toasty import transform

        mon = DeliveryMonitor()
        h = self

        def fn(mon, buf, pos, pio_in, pio_out):
            if buf != ["buf"]:
                mon.flag("bad-buffer", "do_one called with buffer %r" % (buf,))
            if (pio_in, pio_out) != (("INPUT-PYRAMID",), ("OUTPUT-PYRAMID",)):
                mon.flag("wrong-pyramid-arguments", "do_one called with (pio_in, pio_out) = %r" % ((pio_in, pio_out),))
            h._maybe_fail(pos)
            mon.deliver(tuple(pos))

        do_one = Recorder(mon, fn)
        W = self.W
        depth = self.depth

        def make_buf():
            return ["buf"]

        def main():
            if W == 1:
                transform._transform_parallel(("INPUT-PYRAMID",), ("OUTPUT-PYRAMID",), depth, make_buf, do_one, False, 1)
            else:
                transform._do_a_transform(("INPUT-PYRAMID",), depth, make_buf, do_one, pio_out=("OUTPUT-PYRAMID",), parallel=W)

        return self.with_foreign_child(main), mon, None


class ListCollection(object):
    """Duck-typed ImageCollection over in-memory images."""

    def __init__(self, images, fail_at=None, fail_exc="runtime"):
        self._images = images
        self._fail_at = fail_at
        self._fail_exc = fail_exc

    def descriptions(self):
        from toasty.image import ImageDescription

        for i, img in enumerate(self._images):
            d = ImageDescription(mode=img.mode, shape=img.shape, wcs=img.wcs.deepcopy())
            d.collection_id = "img%d" % i
            yield d

    def images(self):
        for i, img in enumerate(self._images):
            if self._fail_at is not None and i == self._fail_at:
                # an input whose header could be read but whose pixels cannot be loaded (truncated file)
                raise FAULTS[self._fail_exc]("injected failure while loading input image %d" % i)
            c = copy.deepcopy(img)
            c.collection_id = "img%d" % i
            yield c


def tan_images(n, w=20, h=16, fail_index=None):
    """n small images side by side on one TAN pixel grid (bottom-up, FITS-like)."""
    from astropy.wcs import WCS
    from toasty.image import Image

    out = []
    for i in range(n):
        wcs = WCS(naxis=2)
        wcs.wcs.ctype = ["RA---TAN", "DEC--TAN"]
        wcs.wcs.crval = [30.0, 40.0]
        wcs.wcs.cdelt = [-1e-3, 1e-3]
        wcs.wcs.crpix = [w * n / 2.0 + 0.5 - i * w, h / 2.0 + 0.5]
        data = np.full((h, w), float(i + 1), dtype=np.float32)
        data[0, :] = 10 * (i + 1)
        out.append(Image.from_array(data, wcs=wcs, default_format="fits"))
    return out


_FAILING = {}


def failing_image_class(kind="runtime"):
    """A picklable Image subclass whose parity query raises (C19 fault injection)."""
    if kind not in _FAILING:
        from toasty.image import Image

        exc = FAULTS[kind]

        class FailingImage(Image):
            def get_parity_sign(self):
                raise exc("injected failure while processing an input image")

        name = "FailingImage_%s" % kind
        FailingImage.__name__ = name
        FailingImage.__qualname__ = name
        globals()[name] = FailingImage
        _FAILING[kind] = FailingImage
    return _FAILING[kind]


class _TileStage(StageHarness):
    """Common part of the multi-TAN / multi-WCS stages: items are input images; 'processed'
    is observed on the output tiles (every image writes a distinct value)."""

    fmt = "fits"

    def _template(self):
        raise NotImplementedError

    def expected_items(self):
        if self._expected is None:
            self._expected = [(i,) for i in range(self.nimg) if i not in getattr(self, "nan_images", ())]
        return self._expected

    def cleanup(self, root):
        if root:
            shutil.rmtree(root, ignore_errors=True)

    def _values_present(self, root):
        from toasty.pyramid import PyramidIO, Pos

        pio = PyramidIO(root, default_format=self.fmt)
        vals = set()
        for fn in _walk_files(root):
            if fn.endswith("." + self.fmt):
                from toasty.image import ImageLoader

                arr = ImageLoader().load_path(os.path.join(root, fn)).asarray()
                vals |= set(np.unique(arr[np.isfinite(arr)]).tolist())
        return vals

    def at_terminal(self, sched, mon):
        # which images made it into the tiles?  (of the last call, when the stage is run more than once)
        vals = self._values_present(os.path.join(sched.root, "second") if getattr(self, "twice", False) else sched.root)
        for i in range(self.nimg):
            if float(i + 1) in vals:
                mon.delivered[(i,)] = 1
        viol, obs = StageHarness.at_terminal(self, sched, mon)
        locks = [f for f in _walk_files(sched.root) if f.endswith(".lock")]
        if locks and self.fail_item is None and self.source_fail is None:
            viol.append(("lock-files-remain", "lock files left behind: %r" % (locks[:3],)))
        return viol, obs


class LeafWrites(StageHarness):
    """C15 across processes: the workers of one visit_leaves call each store the tile of their position; the tiles
    named in `masked` are entirely undefined (so nothing is stored for them, and an earlier file goes).  At the end
    every other tile is stored with the pixels its worker wrote.  File creation is a scheduling point of its own."""

    stage = "leaf_writes"
    io_points = True
    create_points = True
    depth = 1
    masked = ((1, 1, 0),)
    scheme = "L/Y/YX"
    fmt = "png"
    stale = ()

    def expected_items(self):
        if self._expected is None:
            n = self.depth
            m = set(tuple(t) for t in self.masked)
            self._expected = [(n, x, y) for y in range(2**n) for x in range(2**n) if (n, x, y) not in m]
        return self._expected

    def cleanup(self, root):
        if root:
            shutil.rmtree(root, ignore_errors=True)

    @staticmethod
    def _pixels(pos, masked):
        a = np.zeros((256, 256, 4), dtype=np.uint8)
        if not masked:
            a[..., 0] = 10 + 40 * pos[1] + 7 * pos[2]
            a[..., 1] = (np.arange(256) % 200)[None, :]
            a[..., 3] = 255
            a[:9, :, 3] = 0
        return a

    def fresh(self):
        from toasty.image import Image
        from toasty.pyramid import Pyramid, PyramidIO, Pos

        root = tempfile.mkdtemp(prefix="verif-lw-", dir=scratch_root())
        pio = PyramidIO(root, scheme=self.scheme, default_format=self.fmt)
        m = set(tuple(t) for t in self.masked)
        for t in self.stale:
            # a tile left by an earlier run at a position that is entirely undefined this time
            Image.from_array(self._pixels((2, 3, 1), False)).save(pio.tile_path(Pos(*t)), format=self.fmt)
        pyr = Pyramid.new_generic(self.depth)
        mon = DeliveryMonitor()
        h = self

        def fn(mon, pos, tile):
            key = tuple(pos)
            pio.write_image(pos, Image.from_array(h._pixels(key, key in m)))

        cb = Recorder(mon, fn)
        W = self.W

        def main():
            pyr.visit_leaves(cb, parallel=W)

        return self.with_foreign_child(main), mon, root

    def at_terminal(self, sched, mon):
        from toasty.pyramid import PyramidIO, Pos

        pio = PyramidIO(sched.root, scheme=self.scheme, default_format=self.fmt)
        m = set(tuple(t) for t in self.masked)
        extra = []
        n = self.depth
        for y in range(2**n):
            for x in range(2**n):
                key = (n, x, y)
                p = pio.tile_path(Pos(*key), makedirs=False)
                if key in m:
                    if os.path.exists(p):
                        extra.append(("all-undefined-tile-stored", "a file exists at %r, whose tile was written entirely undefined" % (key,)))
                    continue
                if not os.path.exists(p):
                    continue  # reported as items-lost below
                try:
                    got = np.asarray(pio.read_image(Pos(*key)).asarray())
                except Exception as e:
                    extra.append(("stored-tile-unreadable", "%r: %r" % (key, e)))
                    continue
                if got.shape != (256, 256, 4) or not np.array_equal(got, self._pixels(key, False)):
                    extra.append(("readback-differs", "tile %r does not hold the pixels its worker wrote" % (key,)))
                else:
                    mon.delivered[key] = 1
        viol, obs = StageHarness.at_terminal(self, sched, mon)
        return viol + extra, obs


def _walk_files(root):
    out = []
    for d, _dirs, files in os.walk(root):
        for f in files:
            out.append(os.path.relpath(os.path.join(d, f), root))
    return sorted(out)


class MultiTan(_TileStage):
    stage = "multi_tan"

    def fresh(self):
        from toasty.multi_tan import MultiTanProcessor
        from toasty.builder import Builder
        from toasty.pyramid import PyramidIO

        root = tempfile.mkdtemp(prefix="verif-mt-", dir=scratch_root())
        imgs = tan_images(self.nimg)
        fail = self.fail_item
        if fail is not None:
            for k in (range(len(imgs)) if fail == "all" else [fail[0]]):
                imgs[k].__class__ = failing_image_class(self.fail_exc)  # first thing the worker asks of an image raises
        pio = PyramidIO(root, default_format=self.fmt)

        def collection():
            if not getattr(self, "from_files", False):
                return ListCollection(imgs, fail_at=self.source_fail, fail_exc=self.fail_exc)
            # the inputs as FITS files of one shape and type, read through toasty's own collection with a blank
            # value (what `--blankval` gives): the loader's buffers are then part of what is explored
            from toasty import collection as _coll

            if getattr(self, "_paths", None) is None:
                import atexit
                from astropy.io import fits

                d = tempfile.mkdtemp(prefix="verif-mtin-", dir=scratch_root())
                atexit.register(shutil.rmtree, d, True)
                self._paths = []
                hdus = [fits.PrimaryHDU()]
                for i, im in enumerate(tan_images(self.nimg)):
                    a = np.array(im.asarray())
                    a[:, 0] = -999.0
                    pth = os.path.join(d, "in%d.fits" % i)
                    fits.PrimaryHDU(a, header=im.wcs.to_header()).writeto(pth, overwrite=True)
                    hdus.append(fits.ImageHDU(a, header=im.wcs.to_header()))
                    self._paths.append(pth)
                self._mef = os.path.join(d, "all.fits")
                fits.HDUList(hdus).writeto(self._mef, overwrite=True)
            if getattr(self, "mef", False):
                # ONE multi-extension file listed once per extension
                return _coll.load([self._mef] * self.nimg, hdu_index=list(range(1, self.nimg + 1)), blankval=-999.0)
            return _coll.load(list(self._paths), blankval=-999.0)

        if getattr(self, "_tmpl", None) is None:
            proc = MultiTanProcessor(collection())
            with quiet():
                proc.compute_global_pixelization(Builder(pio))
            self._tmpl = proc
        proc = copy.copy(self._tmpl)
        proc._collection = collection()
        mon = DeliveryMonitor()
        W = self.W

        twice = getattr(self, "twice", False)

        def main():
            if twice:
                # the same processor object tiles the same inputs into two pyramids, one after the other
                proc.tile(PyramidIO(os.path.join(root, "first"), default_format=self.fmt), parallel=W)
                proc.tile(PyramidIO(os.path.join(root, "second"), default_format=self.fmt), parallel=W)
            elif W == 1:
                proc._tile_parallel(pio, False, 1)
                pio.clean_lockfiles(proc._tiling._tile_levels)
            else:
                proc.tile(pio, parallel=W)

        return self.with_foreign_child(main), mon, root


def _fake_reproject(input_data, output_projection=None, shape_out=None, return_footprint=False, **kw):
    arr, _wcs = input_data
    if not np.isfinite(arr).any():
        # a segment without data reprojects to nothing
        return np.full(shape_out, np.nan, dtype=np.float64)
    v = float(np.nanmax(arr))
    if v < 0:
        raise FAULTS[{-1: "runtime", -2: "oserror", -3: "valueerror"}[int(round(v))]]("injected failure in reprojection")
    out = np.full(shape_out, np.nan, dtype=np.float64)
    # each input defines its own band of rows so that contributions are all visible
    k = int(round(v))
    out[(k - 1) % shape_out[0] :: 7, :] = v
    return out


class MultiWcs(_TileStage):
    stage = "multi_wcs"

    def fresh(self):
        from toasty.multi_wcs import MultiWcsProcessor
        from toasty.builder import Builder
        from toasty.pyramid import PyramidIO

        root = tempfile.mkdtemp(prefix="verif-mw-", dir=scratch_root())
        imgs = tan_images(self.nimg)
        for i, im in enumerate(imgs):
            im.asarray()[...] = float(i + 1)
        for i in getattr(self, "nan_images", ()):
            imgs[i].asarray()[...] = np.nan  # a segment without any data (dead chip): nothing to tile, nothing to fail
        if self.fail_item is not None:
            for k in (range(len(imgs)) if self.fail_item == "all" else [self.fail_item[0]]):
                imgs[k].asarray()[...] = {"runtime": -1.0, "oserror": -2.0, "valueerror": -3.0}[self.fail_exc]
        pio = PyramidIO(root, default_format=self.fmt)
        if getattr(self, "_tmpl", None) is None:
            proc = MultiWcsProcessor(ListCollection(imgs))
            with quiet():
                proc.compute_global_pixelization(Builder(pio))
            self._tmpl = proc
        proc = copy.copy(self._tmpl)
        proc._collection = ListCollection(imgs, fail_at=self.source_fail, fail_exc=self.fail_exc)
        mon = DeliveryMonitor()
        W = self.W

        rp = _fake_reproject
        if getattr(self, "closure_reproject", False):
            # a reprojection function defined on the spot (cannot be pickled; fork inherits it all the same)
            scale = 1.0
            rp = lambda *a, **k: _fake_reproject(*a, **k) * scale  # noqa: E731

        def main():
            if W == 1:
                proc._tile_parallel(pio, rp, False, 1)
                pio.clean_lockfiles(proc._tiling._tile_levels)
            else:
                proc.tile(pio, rp, parallel=W)

        return self.with_foreign_child(main), mon, root


# ---------------------------------------------------------------------------------------


def _private_seam_present(cfg):
    """W=1 configurations force the parallel implementation through non-public entry points; if a
    refactoring removed them the configuration is skipped (and counted), never reported."""
    if getattr(cfg, "W", 2) != 1:
        return True
    from toasty import pyramid, transform, multi_tan, multi_wcs

    need = {
        "visit_leaves": (pyramid.Pyramid, "_visit_leaves_parallel"),
        "walk": (pyramid.Pyramid, "_walk_parallel"),
        "transform": (transform, "_transform_parallel"),
        "multi_tan": (multi_tan.MultiTanProcessor, "_tile_parallel"),
        "multi_wcs": (multi_wcs.MultiWcsProcessor, "_tile_parallel"),
    }.get(cfg.stage)
    return need is None or hasattr(need[0], need[1])


def explore_to_part(cfg, prop, max_wall=None):
    part = Part()
    if not _private_seam_present(cfg):
        part.count("configurations_skipped_private_api_absent")
        part.notes.append("%s: skipped, non-public entry point absent" % cfg.name)
        return part
    if hasattr(cfg, "serial_vs_ref"):
        msg = cfg.serial_vs_ref()
        if msg:
            part.violation("%s/serial-set-differs-from-reference" % cfg.stage, msg, {"config": cfg.describe()})
    if max_wall is None:
        # a wall-clock budget per configuration: if it is hit the run is reported as not exhaustive
        # (never as a violation) - e.g. when a refactoring of toasty makes state keys stop converging
        max_wall = getattr(cfg, "max_wall", None) or (5400 if os.environ.get("VERIF_TIER_EFFECTIVE") == "thorough" else 1200)
    res = explore(cfg, max_states=cfg.max_states, seed=cfg.seed, max_wall=max_wall)
    part.states += res.states
    part.transitions += res.transitions
    part.executions += res.executions
    part.evaluations += res.executions
    part.nontrivial_n += res.states
    part.count("configurations")
    part.count("terminal_states", res.terminals)
    part.count("distinct_outcomes", len(res.outcomes))
    part.count("steps", res.steps)
    for k, v in res.counters.items():
        part.count(k, v)
    if res.deviation_bound is not None:
        part.count("configurations_explored_under_a_deviation_bound")
        part.notes.append(
            "%s: every schedule with at most %d departures from the default order (keep running the process that moved last) explored; "
            "termination analysis needs the full graph and was not run for this configuration" % (cfg.name, res.deviation_bound)
        )
    if res.counters.get("executions_cut_at_the_horizon"):
        part.notes.append("%s: executions were cut after %s steps (horizon); nothing is claimed beyond that point" % (cfg.name, getattr(cfg, "horizon_steps", "?")))
    if res.terminals == 0 and not res.violations and not res.counters.get("executions_cut_at_the_horizon") and not res.unsound:
        # an exploration in which no execution ever finished says nothing (e.g. a polling loop that the default
        # order never lets anything else interrupt): an error of the check, not a pass
        part.count("driver_crashes")
        part.notes.append("%s: vacuous exploration - no execution reached a terminal state and nothing was reported" % cfg.name)
    if res.unsound:
        part.count("driver_crashes")
        part.notes.append("%s: %s" % (cfg.name, res.unsound))
    if not res.exhaustive:
        part.count("configurations_not_exhausted")
        part.notes.append("%s: budget hit at %d states (not exhaustive)" % (cfg.name, res.states))
    part.notes.append(
        "%s: states=%d transitions=%d executions=%d terminals=%d outcomes=%r wall=%.1fs"
        % (cfg.name, res.states, res.transitions, res.executions, res.terminals, sorted(res.outcomes.items(), key=repr), res.wall)
    )
    for sig, (detail, trace) in res.violations.items():
        part.violation(
            "%s/%s" % (cfg.stage, sig),
            "%s: %s\n schedule (%d steps): %s" % (cfg.name, detail, len(trace), " ".join(trace[-60:])),
            {"harness": type(cfg).__name__, "config": cfg.describe(), "schedule": trace, "signature": sig},
        )
    if res.sample_traces:
        part.sample({"config": cfg.name, "schedule": res.sample_traces[0]})
    return part


def finish_model_report(rep):
    if rep.counters.get("configurations_not_exhausted"):
        rep.exhaustive = False
    if rep.counters.get("driver_crashes"):
        rep.errors.append("driver crashed in %d configuration(s): %s" % (rep.counters["driver_crashes"], rep.notes[:2]))


HARNESSES = {}


def register(cls):
    HARNESSES[cls.__name__] = cls
    return cls


for _c in (VisitLeaves, Walk, WalkTwice, Transform, MultiTan, MultiWcs, LeafWrites, CountsVsParallel):
    register(_c)


def replay(payload):
    """Re-execute one recorded schedule without the explorer."""
    r = payload["replay"]
    cls = HARNESSES[r["harness"]]
    cfgd = dict(r["config"])
    cfgd.pop("stage", None)
    cfg = cls(**{k: (tuple(v) if isinstance(v, list) and k in ("apex", "fail_item") else v) for k, v in cfgd.items()})
    ex = run_labels(cfg, r["schedule"])
    try:
        viol = ex.step_violations()
        if ex.main_finished():
            vs, _obs = cfg.at_terminal(ex.sched, ex.monitor)
            viol += vs
        elif r["signature"] in ("can-wait-forever", "deadlock"):
            viol.append((r["signature"], "state reached; enabled now: %r" % (ex.sched.enabled(),)))
    finally:
        ex.close()
    for sig, detail in viol:
        print("REPLAY-FAIL %s: %s" % (sig, detail))
    return 1 if viol else 0
