"""Scratch directories and small helpers shared by the drivers."""
import contextlib
import io
import os
import shutil
import sys
import tempfile


def scratch_root():
    for d in ("/dev/shm", os.environ.get("TMPDIR") or "/tmp"):
        if os.path.isdir(d) and os.access(d, os.W_OK):
            return d
    return tempfile.gettempdir()


@contextlib.contextmanager
def scratch(prefix="vt"):
    d = tempfile.mkdtemp(prefix="verif-%s-" % prefix, dir=scratch_root())
    try:
        yield d
    finally:
        shutil.rmtree(d, ignore_errors=True)


@contextlib.contextmanager
def quiet():
    """Swallow toasty's informational prints (stdout is reserved for the protocol)."""
    old_out, old_err = sys.stdout, sys.stderr
    sys.stdout = io.StringIO()
    sys.stderr = io.StringIO()
    try:
        yield
    finally:
        sys.stdout, sys.stderr = old_out, old_err


def rng_order(items, seed):
    """Deterministic permutation of a list of cases (seed only reorders; never subsets)."""
    import random

    items = list(items)
    if seed:
        random.Random(seed).shuffle(items)
    return items
