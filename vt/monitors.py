"""Monitors: oracle state kept outside the system under test, shared by all virtual
processes (callbacks copied by the virtual fork keep a reference to the same monitor)."""
from . import vmp


class Monitor(object):
    def __init__(self):
        self.violations = []

    def flag(self, sig, detail):
        self.violations.append((sig, detail))

    def proc_state(self, pid):
        return None

    def shared_state(self):
        return None


class DeliveryMonitor(Monitor):
    """Exactly-once delivery of work items (C03)."""

    def __init__(self, check=None):
        Monitor.__init__(self)
        self.delivered = {}  # item key -> count
        self.by_worker = {}
        self.check = check

    def deliver(self, key, payload=None):
        p = vmp.current_proc()
        self.delivered[key] = self.delivered.get(key, 0) + 1
        if self.delivered[key] > 1:
            self.flag("delivered-twice", "item %r delivered %d times" % (key, self.delivered[key]))
        if p is not None:
            self.by_worker.setdefault(p.pid, []).append(key)
        if self.check is not None:
            msg = self.check(key, payload)
            if msg:
                self.flag("wrong-payload", msg)

    def shared_state(self):
        return tuple(sorted(self.delivered.items()))


class Recorder(object):
    """Callable handed to toasty as the per-item callback; survives the virtual fork
    (deepcopy) by sharing its monitor."""

    def __init__(self, mon, fn):
        self.mon = mon
        self.fn = fn

    def __deepcopy__(self, memo):
        return Recorder(self.mon, self.fn)

    def __vt_key__(self):
        return "recorder"

    def __call__(self, *args):
        return self.fn(self.mon, *args)


class WalkMonitor(Monitor):
    """C01: each live parent exactly once, only after all its live non-leaf children."""

    def __init__(self, model):
        Monitor.__init__(self)
        self.model = model
        self.expected = set(tuple(p) for p in model.ops)
        self.started = {}
        self.completed = {}
        self.inprogress = {}  # pid -> pos

    def start(self, pos):
        t = tuple(pos)
        if t not in self.expected:
            self.flag("callback-for-non-live-or-out-of-scope-tile", "callback for %r which is not a live non-leaf tile of the (sub)pyramid" % (t,))
        self.started[t] = self.started.get(t, 0) + 1
        if self.started[t] > 1:
            self.flag("callback-twice", "callback ran %d times for %r" % (self.started[t], t))
        for c in self.model.live_children.get(t, []):
            if c[0] < self.model.depth and self.completed.get(tuple(c), 0) < 1:
                self.flag("parent-before-child", "callback for %r started before its live child %r completed" % (t, tuple(c)))
        p = vmp.current_proc()
        if p is not None:
            self.inprogress[p.pid] = t

    def end(self, pos):
        t = tuple(pos)
        self.completed[t] = self.completed.get(t, 0) + 1
        p = vmp.current_proc()
        if p is not None:
            self.inprogress.pop(p.pid, None)

    def proc_state(self, pid):
        return self.inprogress.get(pid)

    def shared_state(self):
        return (tuple(sorted(self.started.items())), tuple(sorted(self.completed.items())))
