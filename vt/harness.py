"""Check bookkeeping: counters, violations, known findings, evidence, exit protocol.

A check driver builds one `Report`, fills it (directly or by merging the partial
reports returned from worker processes) and calls `finish()`.
"""
import json
import os
import sys
import time

VERIF = os.path.dirname(os.path.dirname(os.path.abspath(__file__)))
# mutant runs redirect evidence/replays so that committed evidence is never overwritten
OUT = os.environ.get("VERIF_OUT") or VERIF
MAX_SAMPLES = 6


def _jsonable(o):
    import numpy as np

    if isinstance(o, dict):
        return {str(k): _jsonable(v) for k, v in o.items()}
    if isinstance(o, (list, tuple, set, frozenset)):
        return [_jsonable(v) for v in o]
    if isinstance(o, np.ndarray):
        if o.size > 64:
            return {"ndarray": list(o.shape), "dtype": str(o.dtype)}
        return o.tolist()
    if isinstance(o, (np.integer,)):
        return int(o)
    if isinstance(o, (np.floating,)):
        return float(o)
    if isinstance(o, (np.bool_,)):
        return bool(o)
    if isinstance(o, (str, int, float, bool)) or o is None:
        return o
    return repr(o)


class Part(object):
    """Mergeable partial result (picklable; returned by worker processes)."""

    def __init__(self):
        self.evaluations = 0
        self.nontrivial = set()  # keys of distinct non-trivial cases (hashable, small)
        self.nontrivial_n = 0  # or a plain count when keys are known to be distinct
        self.counters = {}
        self.violations = {}  # signature -> (detail, replay payload)
        self.samples = []
        self.states = 0
        self.transitions = 0
        self.executions = 0
        self.notes = []

    def case(self, nontrivial=False, key=None, n=1):
        self.evaluations += n
        if nontrivial:
            if key is None:
                self.nontrivial_n += n
            else:
                self.nontrivial.add(key)

    def count(self, name, n=1):
        self.counters[name] = self.counters.get(name, 0) + n

    def sample(self, obj):
        if len(self.samples) < MAX_SAMPLES:
            self.samples.append(_jsonable(obj))

    def violation(self, signature, detail, replay=None):
        if signature not in self.violations:
            self.violations[signature] = (str(detail)[:2000], _jsonable(replay))
        self.count("violating_cases")

    def merge(self, other):
        self.evaluations += other.evaluations
        self.nontrivial |= other.nontrivial
        self.nontrivial_n += other.nontrivial_n
        for k, v in other.counters.items():
            self.counters[k] = self.counters.get(k, 0) + v
        for k, v in other.violations.items():
            self.violations.setdefault(k, v)
        for s in other.samples:
            if len(self.samples) < MAX_SAMPLES:
                self.samples.append(s)
        self.states += other.states
        self.transitions += other.transitions
        self.executions += other.executions
        self.notes += other.notes


class Report(Part):
    def __init__(self, prop, tier, seed, level):
        Part.__init__(self)
        self.prop = prop
        self.tier = tier
        self.seed = seed
        self.level = level
        self.t0 = time.time()
        self.rule = ""
        self.assumptions = []
        self.extra = {}
        self.exhaustive = True
        self.errors = []

    # -- findings ----------------------------------------------------------------------

    def _known(self):
        p = os.path.join(VERIF, "known_findings.json")
        if not os.path.exists(p):
            return {}
        with open(p) as f:
            data = json.load(f)
        out = {}
        for e in data.get("findings", []):
            if e.get("status") == "known" and e.get("property") == self.prop:
                out[e["signature"]] = e
        return out

    def finish(self):
        known = self._known()
        wall = time.time() - self.t0
        if self.counters.get("driver_crashes") and not any("driver crashed" in e for e in self.errors):
            # a crash of the checking code itself is an error of the check (exit status 2), never a silent pass
            self.errors.append("driver crashed in %d job(s): %s" % (self.counters["driver_crashes"], [n[-300:] for n in self.notes if "driver crash" in n][:2]))
        new = []
        reproduced = []
        for sig in sorted(self.violations):
            if sig in known:
                reproduced.append(sig)
            else:
                new.append(sig)
        rdir = os.path.join(OUT, "replays", self.prop)
        lines = []
        for sig in reproduced:
            lines.append("KNOWN-FINDING: property=%s %s -- %s" % (self.prop, sig, known[sig].get("what", "")))
        for i, sig in enumerate(new):
            os.makedirs(rdir, exist_ok=True)
            detail, replay = self.violations[sig]
            path = os.path.join(rdir, "violation_%02d.json" % i)
            with open(path, "w") as f:
                json.dump(
                    {"property": self.prop, "signature": sig, "detail": detail, "replay": replay, "tier": self.tier},
                    f,
                    indent=1,
                    sort_keys=True,
                )
            lines.append("VIOLATION property=%s replay=%s" % (self.prop, path))
            lines.append("  signature: %s" % sig)
            lines.append("  detail: %s" % detail.replace("\n", "\n    "))
        for e in self.errors:
            lines.append("CHECK-ERROR property=%s %s" % (self.prop, e))

        nontriv = len(self.nontrivial) + self.nontrivial_n
        cov = {
            "evaluations": int(self.evaluations),
            "distinct_nontrivial": int(nontriv),
            "rule": self.rule,
            "samples": self.samples[:MAX_SAMPLES] or ["(no sample recorded)"],
            "exhaustive": bool(self.exhaustive),
            "counters": {k: int(v) for k, v in sorted(self.counters.items())},
        }
        if self.level == "model_checking":
            cov["states"] = int(self.states)
            cov["transitions"] = int(self.transitions)
            cov["traces_validated_against_impl"] = int(self.executions)
        cov.update(_jsonable(self.extra))
        ev = {
            "property_id": self.prop,
            "tier": self.tier,
            "seed": int(self.seed),
            "level": self.level,
            "coverage": cov,
            "assumptions": self.assumptions,
            "wall_s": round(wall, 2),
            "violations": len(new),
            "known_findings_reproduced": reproduced,
            "notes": self.notes[:80],
        }
        os.makedirs(os.path.join(OUT, "evidence"), exist_ok=True)
        evp = os.path.join(OUT, "evidence", self.prop + ".json")
        tmp = evp + ".tmp%d" % os.getpid()
        with open(tmp, "w") as f:
            json.dump(ev, f, indent=1, sort_keys=True)
        os.replace(tmp, evp)
        for l in lines:
            print(l)
        print(
            "%s tier=%s seed=%d evaluations=%d nontrivial=%d states=%d transitions=%d executions=%d violations=%d known=%d wall=%.1fs"
            % (
                self.prop,
                self.tier,
                self.seed,
                self.evaluations,
                nontriv,
                self.states,
                self.transitions,
                self.executions,
                len(new),
                len(reproduced),
                wall,
            )
        )
        sys.stdout.flush()
        if new:
            return 1  # a violation was found and printed, whatever else went wrong in the run
        return 2 if self.errors else 0
