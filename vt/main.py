import argparse
import importlib
import json
import os
import sys
import traceback


def main(argv=None):
    ap = argparse.ArgumentParser()
    ap.add_argument("prop")
    ap.add_argument("--tier", default=os.environ.get("VERIF_TIER", "quick"), choices=["quick", "thorough"])
    ap.add_argument("--replay", default=None)
    ap.add_argument("--jobs", type=int, default=None)
    args = ap.parse_args(argv)
    if args.jobs:
        os.environ["VERIF_JOBS"] = str(args.jobs)
    try:
        seed = int(os.environ.get("VERIF_SEED", "0"))
    except ValueError:
        seed = 0

    # toasty's "use all CPUs" default consults SLURM_NPROCS: keep nested parallelism small
    os.environ.setdefault("SLURM_NPROCS", "2")

    from . import build

    build.ensure_built()
    build.activate_repo()

    # toasty prints informational lines; keep our stdout for the protocol
    prop = args.prop.upper()
    mod = importlib.import_module("checks." + prop.lower())
    if args.replay:
        with open(args.replay) as f:
            payload = json.load(f)
        rc = mod.replay(payload)
        sys.exit(rc)
    os.environ["VERIF_TIER_EFFECTIVE"] = args.tier
    try:
        rc = mod.run(args.tier, seed)
    except SystemExit:
        raise
    except BaseException:
        traceback.print_exc()
        rdir = os.path.join(os.environ.get("VERIF_OUT") or os.path.dirname(os.path.dirname(os.path.abspath(__file__))), "replays", prop)
        os.makedirs(rdir, exist_ok=True)
        path = os.path.join(rdir, "crash.json")
        with open(path, "w") as f:
            json.dump({"property": prop, "signature": "check-crashed", "detail": traceback.format_exc()}, f)
        print("VIOLATION property=%s replay=%s" % (prop, path))
        rc = 1
    sys.exit(rc)


if __name__ == "__main__":
    sys.path.insert(0, os.path.dirname(os.path.dirname(os.path.abspath(__file__))))
    main()
