"""C12 -- point lookup returns the tile and pixel that actually contain the point.

Bounded-exhaustive: the TOAST vertex lattice itself (corners, edge midpoints, centres,
i.e. exactly the edges / diamond / seam / poles the quantifier lists) plus a regular
lon/lat grid, every longitude also shifted by multiples of 2*pi, for every depth to a
bound and both coordinate systems, against the 3-D reference geometry.
"""
import numpy as np

from vt import par
from vt.fixtures import quiet, rng_order
from vt.harness import Part, Report
from vt.ref import toastgeom as tg

PROP = "C12"
SHIFTS = [0.0, 2 * np.pi, -2 * np.pi, 4 * np.pi]


def points(tier):
    L = 4 if tier == "quick" else 6  # vertex lattice of level L = corners+midpoints+centres of level L-1
    c, _ = tg.tiles_at(L, False)
    n = 2**L
    pts = {}
    for y in range(n):
        for x in range(n):
            for k in range(4):
                lon, lat = tg.lonlat(c[y, x, k])
                key = (round(float(lon) % (2 * np.pi), 12) % round(2 * np.pi, 12), round(float(lat), 12))
                pts[key] = ("lattice", float(lon), float(lat))
    out = list(pts.values())
    for i in range(24):
        for j in range(13):
            lon = (i + 0.31) * 2 * np.pi / 24
            lat = -np.pi / 2 + (j + 0.47) * np.pi / 13
            out.append(("grid", lon, lat))
    # a few points very close to (but not on) the poles and the seam
    for lat in (np.pi / 2 - 1e-7, -np.pi / 2 + 1e-7, 1.2, -1.2, 0.0):
        for lon in (0.0, 1e-9, 2 * np.pi - 1e-9, np.pi, 3 * np.pi / 2, np.pi / 2):
            out.append(("edge", lon, lat))
    # longitudes a hair below zero (lon % 2 pi rounds to exactly 2 pi), denormal and signed-zero values
    for lat in (0.3, -1.0, np.pi / 2 - np.radians(2.0)):
        for lon in (-1e-17, -1e-300, float(np.nextafter(0.0, -1.0)), -4.4e-16, -0.0, 5e-324, 2 * np.pi - 4.4e-16, float(np.nextafter(2 * np.pi, 0.0))):
            out.append(("edge", lon, lat))
    # within 1e-6 .. 1e-9 radian of a pole but not on it (the longitude still matters)
    for dl in (1e-6, 3e-7, 1e-8, 1e-9):
        for sgn in (1, -1):
            for lon in (0.7, 2.3, 3.9, 5.5):
                out.append(("nearpole-tile", lon, sgn * (np.pi / 2 - dl)))
    # just outside the 1-degree polar caps, close to the meridians where four level-1 tiles meet (the pixel
    # search is most anisotropic there)
    for dlat in ((1.01, 1.03, 1.1, 1.2, 1.35, 1.52, 2.0, 3.0) if tier == "thorough" else (1.01, 1.1, 1.35, 1.52, 3.0)):
        for sgn in (1, -1):
            for k in range(4):
                for off in ((-0.05, -0.02, -0.005, 0.005, 0.02, 0.04) if tier == "thorough" else (-0.02, -0.005, 0.005, 0.04)):
                    out.append(("nearpole", (k * np.pi / 2 + off) % (2 * np.pi), sgn * (np.pi / 2 - np.radians(dlat))))
    return out


def check_point(kind, lon, lat, depths, pix_depths, planetary, part, deep=()):
    from toasty import toast
    from toasty.pyramid import Pos

    cs = toast.ToastCoordinateSystem.PLANETARY if planetary else toast.ToastCoordinateSystem.ASTRONOMICAL
    csn = "planetary" if planetary else "astronomical"
    p = tg.vec(lon, lat)
    base = {"lon": lon, "lat": lat, "coordsys": csn, "kind": kind}
    # a lookup in the OTHER system at the longitude 180 degrees away (the same address in the square)
    # immediately before: the answer for this system must not depend on it
    other = toast.ToastCoordinateSystem.ASTRONOMICAL if planetary else toast.ToastCoordinateSystem.PLANETARY
    for d0 in (2, 5):
        try:
            toast.toast_tile_for_point(d0, lat, lon + np.pi, coordsys=other)
            t = toast.toast_tile_for_point(d0 + 1, lat, lon, coordsys=cs)
            part.case(nontrivial=True)
            pos = tuple(t.pos)
            c, _inc = tg.single(pos[0], pos[1], pos[2], planetary)
            got = tg.vec(np.array([q[0] for q in t.corners]), np.array([q[1] for q in t.corners]))
            if not tg.contains(c, p, tol=1e-9) or tg.angdist(got, c).max() > 1e-9:
                part.violation("tile/depends-on-previous-lookup/coordsys=%s" % csn, "%r: after a lookup in the other system at lon+pi, depth %d returns tile %r (contains point: %r, corners off by %.3g rad)" % (base, d0 + 1, pos, tg.contains(c, p, tol=1e-9), tg.angdist(got, c).max()), dict(base, depth=d0 + 1))
        except Exception as e:
            part.violation("tile/raises:%s/coordsys=%s" % (type(e).__name__, csn), "%r: %r" % (base, e), dict(base, depth=d0 + 1))
    prev = None
    for d in depths:
        per_shift = []
        for sh in SHIFTS:
            cfg = dict(base, depth=d, lon_shift=sh)
            part.case(nontrivial=(kind != "grid") or sh != 0.0)
            try:
                t = toast.toast_tile_for_point(d, lat, lon + sh, coordsys=cs)
            except Exception as e:
                part.violation("tile/raises:%s/coordsys=%s" % (type(e).__name__, csn), "%r: %r" % (cfg, e), cfg)
                continue
            pos = tuple(t.pos)
            per_shift.append(pos)
            if d == 0:
                if pos != (0, 0, 0):
                    part.violation("tile/depth0/coordsys=%s" % csn, "%r: returned %r" % (cfg, pos), cfg)
                continue
            if pos[0] != d or not (0 <= pos[1] < 2**d and 0 <= pos[2] < 2**d):
                part.violation("tile/bad-position/coordsys=%s" % csn, "%r: returned %r" % (cfg, pos), cfg)
                continue
            c, inc = tg.single(d, pos[1], pos[2], planetary)
            if not tg.contains(c, p, tol=1e-9):
                clause = "tile/containment/coordsys=%s/%s" % (csn, "level1" if d == 1 else "deeper")
                if sh != 0.0:
                    clause += "/shifted-longitude"
                part.violation(clause, "%r: returned tile %r does not contain the point" % (cfg, pos), cfg)
            if sh == 0.0:
                # the returned Tile is the tile of its position
                ref = toast.create_single_tile(Pos(*pos), coordsys=cs)
                got = tg.vec(np.array([q[0] for q in t.corners]), np.array([q[1] for q in t.corners]))
                want = tg.vec(np.array([q[0] for q in ref.corners]), np.array([q[1] for q in ref.corners]))
                if tg.angdist(got, want).max() > 1e-12 or bool(t.increasing) != bool(ref.increasing):
                    part.violation("tile/geometry-differs-from-single-tile/coordsys=%s" % csn, "%r: corners of returned tile %r differ from create_single_tile" % (cfg, pos), cfg)
                if prev is not None and prev[0] >= 1:
                    if (pos[1] >> (d - prev[0]), pos[2] >> (d - prev[0])) != (prev[1], prev[2]):
                        part.violation("tile/not-nested/coordsys=%s" % csn, "%r: tile %r at depth %d is not inside tile %r returned for depth %d" % (cfg, pos, d, prev, prev[0]), cfg)
                prev = pos
        # periodicity: same answer, or (on a shared edge) another tile that also contains the point
        if len(set(per_shift)) > 1:
            for pos in set(per_shift):
                if pos[0] >= 1 and not tg.contains(tg.single(pos[0], pos[1], pos[2], planetary)[0], p, tol=1e-9):
                    part.violation("tile/not-periodic/coordsys=%s" % csn, "%r depth %d: answers for shifted longitudes %r" % (base, d, per_shift), dict(base, depth=d))
                    break
    # deep descents (tolerances that are absolute rather than relative to the tile size only show here)
    for d in deep:
        cfg = dict(base, depth=d, lon_shift=0.0)
        part.case(nontrivial=True)
        part.count("deep_lookups")
        try:
            t = toast.toast_tile_for_point(d, lat, lon, coordsys=cs)
        except Exception as e:
            part.violation("tile/raises:%s/coordsys=%s" % (type(e).__name__, csn), "%r: %r" % (cfg, e), cfg)
            continue
        pos = tuple(t.pos)
        if pos[0] != d or not (0 <= pos[1] < 2**d and 0 <= pos[2] < 2**d):
            part.violation("tile/bad-position/coordsys=%s" % csn, "%r: returned %r" % (cfg, pos), cfg)
            continue
        c, _inc = tg.single(d, pos[1], pos[2], planetary)
        # "up to rounding on shared edges": a great-circle side of length w between two unit vectors in double
        # precision is only resolved to about ulp / w radians, which at depth >= 23 is a visible part of a tile
        w = (np.pi / 2) / 2**d
        tol = 1e-3 * w + 8 * np.finfo(float).eps / w
        if not tg.contains(c, p, tol=tol):
            part.violation("tile/containment/coordsys=%s/deep" % csn, "%r: the depth-%d tile %r returned does not contain the point (tolerance %.3g rad = %.3g tile widths)" % (cfg, d, pos, tol, tol / w), cfg)
    # pixel clause
    if abs(lat) <= np.pi / 2 - np.radians(1.0):
        for d in pix_depths:
            for sh in (0.0, 2 * np.pi, -4 * np.pi, 6 * np.pi):
                if sh in (-4 * np.pi, 6 * np.pi) and d != 3:
                    continue
                cfg = dict(base, depth=d, lon_shift=sh, pixel=True)
                part.case(nontrivial=True)
                part.count("pixel_lookups")
                try:
                    t, x, y = toast.toast_pixel_for_point(d, lat, lon + sh, coordsys=cs)
                except Exception as e:
                    part.violation("pixel/raises:%s/coordsys=%s" % (type(e).__name__, csn), "%r: %r" % (cfg, e), cfg)
                    continue
                pos = tuple(t.pos)
                if pos[0] != d:
                    continue
                if not tg.contains(tg.single(d, pos[1], pos[2], planetary)[0], p, tol=1e-9):
                    part.violation("pixel/tile-does-not-contain-point/coordsys=%s" % csn, "%r: toast_pixel_for_point returned tile %r which does not contain the point" % (cfg, pos), cfg)
                    continue
                g = tg.pixel_grid(d, pos[1], pos[2], planetary)
                dist = np.linalg.norm(g - p, axis=-1)
                i, j = np.unravel_index(np.argmin(dist), dist.shape)
                if not (np.isfinite(x) and np.isfinite(y)) or abs(x - j) > 2 or abs(y - i) > 2:
                    lonq = "last-quadrant" if (lon % (2 * np.pi)) >= 3 * np.pi / 2 - 1e-9 else "other"
                    clause = "pixel/off-by-more-than-2/%s%s" % ("unnormalised-longitude" if sh else "normalised-longitude", "" if sh else "/" + lonq)
                    part.violation(clause, "%r: returned (x, y) = (%.3f, %.3f) in tile %r; nearest pixel centre is (%d, %d)" % (cfg, x, y, pos, j, i), cfg)


def _work(job):
    tier, first_planetary, pts = job
    part = Part()
    depths = list(range(0, 7)) if tier == "quick" else list(range(0, 9))
    pix = [1, 3, 6]
    # both coordinate systems alternate inside one process (state leaking between them must show)
    pts2 = []
    for k, p in enumerate(pts):
        order = (first_planetary, not first_planetary) if k % 2 == 0 else (not first_planetary, first_planetary)
        pts2 += [(p, order[0]), (p, order[1])]
    for k, ((kind, lon, lat), planetary) in enumerate(pts2):
        # which points get the (slow) pixel lookups depends on the point, not on the seed-dependent order
        sel = (int(round(lon * 1e6)) + 3 * int(round(lat * 1e6))) % 4
        if tier == "thorough":
            pd = pix if sel == 0 else []
        else:
            pd = pix if sel in (0, 2) else [3]
        deep = ((14, 23) if sel == 1 else (20, 24)) if (tier == "thorough" or sel in (1, 3)) else ()
        if kind == "nearpole-tile":
            # tile clause only, down to the depth where a tile is still wider than the distance to the pole
            check_point(kind, lon, lat, [3, 6], [], planetary, part, (12, 18, 22))
            continue
        if kind == "nearpole":
            check_point(kind, lon, lat, [3], [2, 3, 4] if (tier == "thorough" or sel != 3) else [3], planetary, part, ())
            continue
        check_point(kind, lon, lat, depths, pd, planetary, part, deep)
        if k == 3:
            part.sample({"lon": lon, "lat": lat, "kind": kind, "coordsys": "planetary" if planetary else "astronomical", "depths": depths})
    return part


def _work_special(job):
    """Queries in unusual representations: (a) latitude / longitude given as integers (Python int, numpy integer),
    a 32-bit float, a 0-d array - the answer must be that of the same number as a Python float; (b) queries that
    are bit for bit the centre of a pixel of the tile they fall in (taken from toasty's own pixel-centre grid)."""
    from toasty import toast
    from toasty.pyramid import Pos

    tier, planetary = job
    part = Part()
    cs = toast.ToastCoordinateSystem.PLANETARY if planetary else toast.ToastCoordinateSystem.ASTRONOMICAL
    csn = "planetary" if planetary else "astronomical"
    forms = [("int", int), ("int64", np.int64), ("int32", np.int32), ("array0d", lambda v: np.array(float(v))), ("float32", np.float32)]
    for lat_i in (-1, 0, 1):
        for lon_i in (0, 1, 2, 3, 4, 5, 6):
            for fname_, conv in forms:
                for d in (1, 3, 6):
                    cfg = {"lon": lon_i, "lat": lat_i, "coordsys": csn, "kind": "typed:" + fname_, "depth": d}
                    part.case(nontrivial=True)
                    part.count("typed_lookups")
                    try:
                        want = tuple(toast.toast_tile_for_point(d, float(conv(lat_i)), float(conv(lon_i)), coordsys=cs).pos)
                        got = tuple(toast.toast_tile_for_point(d, conv(lat_i), conv(lon_i), coordsys=cs).pos)
                    except Exception as e:
                        part.violation("tile/raises:%s/coordsys=%s" % (type(e).__name__, csn), "%r: %r" % (cfg, e), cfg)
                        continue
                    pq = tg.vec(float(lon_i), float(lat_i))
                    if got != want and not tg.contains(tg.single(got[0], got[1], got[2], planetary)[0], pq, tol=1e-9):
                        part.violation("tile/containment/number-type", "%r: latitude/longitude given as %s: tile %r, which does not contain the point (given as float: %r)" % (cfg, fname_, got, want), cfg)
                if fname_ in ("int", "int64") and abs(lat_i) < 1.5:
                    cfg = {"lon": lon_i, "lat": lat_i, "coordsys": csn, "kind": "typed:" + fname_, "depth": 3, "pixel": True}
                    part.case(nontrivial=True)
                    try:
                        t, x, y = toast.toast_pixel_for_point(3, conv(lat_i), conv(lon_i), coordsys=cs)
                    except Exception as e:
                        part.violation("pixel/raises:%s/coordsys=%s" % (type(e).__name__, csn), "%r: %r" % (cfg, e), cfg)
                        continue
                    pos = tuple(t.pos)
                    pq = tg.vec(float(lon_i), float(lat_i))
                    g = tg.pixel_grid(3, pos[1], pos[2], planetary)
                    dist = np.linalg.norm(g - pq, axis=-1)
                    i, j = np.unravel_index(np.argmin(dist), dist.shape)
                    if not tg.contains(tg.single(3, pos[1], pos[2], planetary)[0], pq, tol=1e-9) or not (abs(x - j) <= 2 and abs(y - i) <= 2):
                        part.violation("pixel/number-type", "%r: given as %s: tile %r pixel (%.2f, %.2f); nearest centre (%d, %d)" % (cfg, fname_, pos, x, y, j, i), cfg)
    # (b) exact pixel centres
    tiles = [(1, 0, 0), (1, 1, 0), (1, 0, 1), (1, 1, 1), (3, 2, 5), (3, 7, 0), (3, 4, 4), (6, 13, 50), (6, 33, 31)] + ([(2, 1, 2), (4, 9, 3), (5, 30, 2), (7, 100, 17)] if tier == "thorough" else [])
    pix = [(10, 200), (128, 3), (250, 77), (0, 255), (31, 32)] + ([(255, 0), (100, 101), (5, 5)] if tier == "thorough" else [])
    for (n_, x_, y_) in tiles:
        tile = toast.create_single_tile(Pos(n_, x_, y_), coordsys=cs)
        lons, lats = toast.toast_tile_get_coords(tile)
        g = tg.pixel_grid(n_, x_, y_, planetary)
        for (i, j) in pix:
            lon, lat = float(lons[i, j]), float(lats[i, j])
            if abs(lat) > np.pi / 2 - np.radians(1.0):
                continue
            for lonq in (lon, lon % (2 * np.pi)):
                cfg = {"lon": lonq, "lat": lat, "coordsys": csn, "kind": "pixel-centre", "depth": n_, "pixel": True}
                part.case(nontrivial=True)
                part.count("exact_pixel_centre_lookups")
                try:
                    t, x, y = toast.toast_pixel_for_point(n_, lat, lonq, coordsys=cs)
                except Exception as e:
                    part.violation("pixel/raises:%s/coordsys=%s" % (type(e).__name__, csn), "%r: %r" % (cfg, e), cfg)
                    continue
                pq = tg.vec(lonq, lat)
                if np.linalg.norm(g[i, j] - pq) > 1e-9:
                    part.violation("pixel/grid-differs-from-reference", "%r: toasty's pixel centre (%d, %d) of tile %r is %.3g rad from the reference centre" % (cfg, j, i, (n_, x_, y_), np.linalg.norm(g[i, j] - pq)), cfg)
                    continue
                if tuple(t.pos) != (n_, x_, y_) or not (abs(x - j) <= 2 and abs(y - i) <= 2):
                    part.violation("pixel/exact-centre", "%r: the query is the centre of pixel (x=%d, y=%d) of tile %r; returned tile %r, (x, y) = (%.3f, %.3f)" % (cfg, j, i, (n_, x_, y_), tuple(t.pos), x, y), cfg)
    return part


def run(tier, seed):
    rep = Report(PROP, tier, seed, "exploration")
    rep.rule = (
        "every vertex of the level-%d TOAST lattice (corners, edge midpoints, centres of coarser tiles: edges, diamond, seam, poles) + a 24x13 "
        "grid + near-pole/seam points + 160 (384) points 1-3 degrees from the poles near the quadrant meridians (pixel clause at depths 2-4), each at 4 longitude shifts, depths 0..%d, both coordinate systems; pixel clause at depths 1,3,6 for "
        "points >= 1 degree from the poles; deep descents to depth 14/23 or 20/24 for half of the points (containment to 1e-3 tile widths plus the double-precision resolution 8 ulp / width of a tile side); non-trivial = lattice/edge point or shifted longitude; plus integer / 32-bit / 0-d-array typed coordinates (3 latitudes x 7 longitudes x 5 types, answer compared with the float query) and queries that are bit for bit the centre of a pixel (9-13 tiles x 5-8 pixels, as given and reduced mod 2 pi)"
        % (4 if tier == "quick" else 6, 6 if tier == "quick" else 8)
    )
    rep.assumptions = ["points within 1e-9 of a shared edge may resolve to either adjacent tile", "continuum between lattice points is not covered", "'up to rounding on shared edges' is read, for deep tiles, as the double-precision resolution of a side of length w: 8 ulp / w radians (0.005 tile widths at depth 20, 0.2 at depth 24)"]
    pts = rng_order(points(tier), seed)
    n = par.ncores()
    jobs = []
    n = n * 2
    for i in range(n):
        jobs.append((tier, bool(i % 2), pts[i::n]))
    par.pmap(_work, jobs, rep)
    par.pmap(_work_special, [(tier, False), (tier, True)], rep)
    return rep.finish()


def replay(payload):
    r = payload["replay"]
    if str(r.get("kind", "")).startswith("typed:") or r.get("kind") == "pixel-centre":
        # the representation families are small: re-run the family for that coordinate system
        part = _work_special(("thorough", r["coordsys"] == "planetary"))
        for sig, (detail, _) in part.violations.items():
            print("REPLAY-FAIL", sig, detail[:300])
        return 1 if part.violations else 0
    part = Part()
    deep = (r["depth"],) if (not r.get("pixel") and r["depth"] > 9) else ()
    check_point(r.get("kind", "replay"), r["lon"], r["lat"], [r["depth"]] if not (r.get("pixel") or deep) else [], [r["depth"]] if r.get("pixel") else [], r["coordsys"] == "planetary", part, deep)
    for sig, (detail, _) in part.violations.items():
        print("REPLAY-FAIL", sig, detail[:300])
    return 1 if part.violations else 0
