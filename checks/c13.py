"""C13 -- quadtree enumeration and tile counts are consistent and match what is visited.

Bounded-exhaustive enumeration (same filter/apex space as C01's serial half) against the
reference quadtree, plus the position algebra on every pair of positions to a depth bound.
"""
import numpy as np

from vt import par, stages
from vt.fixtures import quiet, rng_order
from vt.harness import Part, Report
from vt.ref import quadtree
from checks import c01

PROP = "C13"


_REF_TILES = {}


def _ref_tile(n, x, y, planetary):
    k = (n, x, y, planetary)
    if k not in _REF_TILES:
        from vt.ref import toastgeom as tg

        _REF_TILES[k] = tg.single(n, x, y, planetary)
    return _REF_TILES[k]


def check_case(kind, depth, acc, apex, cs, part, full_cache):
    from toasty.pyramid import depth2tiles, tiles_at_depth

    cfg = {"kind": kind, "depth": depth, "accepted": acc, "apex": apex, "coordsys": cs}
    model = stages.ref_model(kind, depth, acc, apex)
    n_leaf_ref, n_live_ref, n_ops_ref = model.counts()
    part.case(nontrivial=(apex != (0, 0, 0) or acc is not None) and n_live_ref > 0)

    def bad(clause, detail):
        part.violation("%s/%s" % (clause, kind), "%r: %s" % (cfg, detail), cfg)

    def mk():
        return stages.make_pyramid(kind, depth, acc, apex, cs)

    try:
        with quiet():
            n_leaf = mk().count_leaf_tiles()
            n_live = mk().count_live_tiles()
            n_ops = mk().count_operations()
            leaves = []
            mk().visit_leaves(lambda pos, tile: leaves.append((tuple(pos), tile)), parallel=1)
            ops = []
            mk().walk(lambda pos: ops.append(tuple(pos)), parallel=1)
            pyr = mk()
            # the pyramid-level enumeration is a non-public seam; if a refactoring removes it the clause is
            # skipped (and counted), not reported
            gen = [(tuple(p), t) for p, t in pyr._generator()] if hasattr(pyr, "_generator") else None
    except Exception as e:
        bad("raises:%s" % type(e).__name__, repr(e))
        return
    if (n_leaf, n_live, n_ops) != (n_leaf_ref, n_live_ref, n_ops_ref):
        bad("counts-vs-reference", "count_leaf/live/operations = %r, reference %r" % ((n_leaf, n_live, n_ops), (n_leaf_ref, n_live_ref, n_ops_ref)))
    if n_ops + n_leaf != n_live:
        bad("ops+leaves!=live", "%d + %d != %d" % (n_ops, n_leaf, n_live))
    if len(leaves) != n_leaf:
        bad("count_leaf_tiles-vs-visited", "count_leaf_tiles=%d but visit_leaves made %d callbacks" % (n_leaf, len(leaves)))
    if len(ops) != n_ops:
        bad("count_operations-vs-walked", "count_operations=%d but walk made %d callbacks" % (n_ops, len(ops)))
    lset = [l[0] for l in leaves]
    if sorted(lset) != sorted(tuple(p) for p in model.leaves):
        bad("leaf-set", "visited leaves differ from reference: %r" % (sorted(set(lset) ^ set(tuple(p) for p in model.leaves))[:4],))
    if len(set(lset)) != len(lset):
        bad("leaf-twice", "a leaf was visited twice")
    if sorted(ops) != sorted(tuple(p) for p in model.ops):
        bad("walk-set", "walked tiles differ from reference: %r" % (sorted(set(ops) ^ set(tuple(p) for p in model.ops))[:4],))
    for pos, tile in leaves:
        if kind == "generic":
            if tile is not None:
                bad("leaf-tile", "generic pyramid delivered a tile object")
        elif depth >= 1 and (tile is None or tuple(tile.pos) != pos):
            bad("leaf-tile", "leaf %r delivered with tile %r" % (pos, tile))
        elif depth >= 1:
            # the tile handed over is the tile of that position in the pyramid's coordinate system
            from vt.ref import toastgeom as tg

            c, inc = _ref_tile(pos[0], pos[1], pos[2], cs == "planetary")
            v = tg.vec(np.array([float(q[0]) for q in tile.corners]), np.array([float(q[1]) for q in tile.corners]))
            if tg.angdist(v, c).max() > 1e-9 or bool(tile.increasing) != inc:
                bad("leaf-tile-geometry", "leaf %r delivered with corners %.3g rad away from its own tile's (coordinate system %s)" % (pos, tg.angdist(v, c).max(), cs or "astronomical"))
                break
    # the module-level counter of tiles matching a filter agrees with the pyramid's own numbers
    if kind == "filtered" and apex == (0, 0, 0) and depth >= 1:
        try:
            from toasty import toast

            accset = set(tuple(a) for a in acc)
            tf = lambda t: tuple(t.pos) in accset  # noqa: E731
            kw = {"coordsys": toast.ToastCoordinateSystem.PLANETARY} if cs == "planetary" else {}
            nb = toast.count_tiles_matching_filter(depth, tf, bottom_only=True, **kw)
            na = toast.count_tiles_matching_filter(depth, tf, bottom_only=False, **kw)
            ref_all = len([p for p in model.visited if p[0] >= 1])
            if nb != n_leaf_ref or na != ref_all:
                bad("count_tiles_matching_filter", "count_tiles_matching_filter gives %d leaves / %d tiles, the reference %d / %d" % (nb, na, n_leaf_ref, ref_all))
        except Exception as e:
            bad("count_tiles_matching_filter-raises:%s" % type(e).__name__, repr(e))
    # a pyramid keeps the coordinate system it was made with: a second pyramid made with the OTHER system after
    # it (and before it is traversed) must not change the tiles the first one hands out
    if kind != "generic" and depth >= 1:
        try:
            from vt.ref import toastgeom as tg

            with quiet():
                first = mk()
                stages.make_pyramid(kind, depth, acc, apex, None if cs == "planetary" else "planetary")
                held = []
                first.visit_leaves(lambda pos, tile: held.append((tuple(pos), tile)), parallel=1)
            for pos, tile in held[:6]:
                c, inc = _ref_tile(pos[0], pos[1], pos[2], cs == "planetary")
                v = tg.vec(np.array([float(q[0]) for q in tile.corners]), np.array([float(q[1]) for q in tile.corners]))
                if tg.angdist(v, c).max() > 1e-9 or bool(tile.increasing) != inc:
                    bad("history/coordinate-system-of-a-later-pyramid-used", "a pyramid made for the %s system, traversed after another pyramid was made for the other system, delivered leaf %r with the other system's geometry" % (cs or "astronomical", pos))
                    break
            if sorted(h[0] for h in held) != sorted(lset):
                bad("history/coordinate-system-of-a-later-pyramid-used", "the set of leaves changed after another pyramid was made for the other system")
        except Exception as e:
            bad("history/raises:%s" % type(e).__name__, repr(e))
    # a request the pyramid must refuse (apex deeper than the pyramid) leaves the instance unchanged
    try:
        with quiet():
            from toasty.pyramid import Pos

            inst = stages.make_pyramid(kind, depth, acc, None, cs)
            refused = False
            try:
                inst.subpyramid(Pos(depth + 1, 0, 0))
            except ValueError:
                refused = True
            if refused:
                full_model = stages.ref_model(kind, depth, acc, None)
                got = (inst.count_leaf_tiles(), inst.count_live_tiles(), inst.count_operations())
                if got != full_model.counts():
                    bad("history/refused-subpyramid-changes-instance", "after a refused subpyramid() call the counts are %r, a fresh instance gives %r" % (got, full_model.counts()))
                elif apex != (0, 0, 0):
                    inst.subpyramid(Pos(*apex))
                    got = (inst.count_leaf_tiles(), inst.count_live_tiles(), inst.count_operations())
                    if got != (n_leaf_ref, n_live_ref, n_ops_ref):
                        bad("history/refused-subpyramid-changes-instance", "a legal subpyramid() after a refused one gives counts %r, expected %r" % (got, (n_leaf_ref, n_live_ref, n_ops_ref)))
    except Exception as e:
        bad("history/raises-after-refused-subpyramid:%s" % type(e).__name__, repr(e))
    if acc is None:
        sub = depth - apex[0]
        closed = (tiles_at_depth(sub), depth2tiles(sub), depth2tiles(sub - 1) if sub >= 1 else 0)
        if (n_leaf, n_live, n_ops) != closed:
            bad("closed-form", "counts %r, closed form %r" % ((n_leaf, n_live, n_ops), closed))
    # enumeration: exactly once, children before the position
    if gen is None:
        part.count("generator_clause_skipped_private_api_absent")
        gen = []
        model_visited_backup = model.visited
        model.visited = []
    gpos = [g[0] for g in gen]
    if len(set(gpos)) != len(gpos):
        bad("generator-duplicate", "a position was yielded twice")
    idx = {p: i for i, p in enumerate(gpos)}
    inscope = [p for p in gpos if p[0] >= apex[0]]
    if sorted(inscope) != sorted(tuple(p) for p in model.visited):
        bad("generator-set", "positions at/below the apex differ from the reference in-scope set: %r" % (sorted(set(inscope) ^ set(tuple(p) for p in model.visited))[:4],))
    vis = set(tuple(p) for p in model.visited)
    for p in inscope:
        for c in quadtree.children(p):
            c = tuple(c)
            if c in vis and (c not in idx or idx[c] > idx[p]):
                bad("generator-order", "%r yielded before its in-scope child %r" % (p, c))
                break
    # the same questions asked of ONE instance, before and after restricting it to the sub-pyramid,
    # and asked twice: answers must not depend on what was asked earlier
    if apex != (0, 0, 0):
        try:
            with quiet():
                from toasty.pyramid import Pos

                one = stages.make_pyramid(kind, depth, acc, None, cs)
                before = (one.count_leaf_tiles(), one.count_live_tiles(), one.count_operations())
                one.subpyramid(Pos(*apex))
                after = (one.count_leaf_tiles(), one.count_live_tiles(), one.count_operations())
                again = (one.count_leaf_tiles(), one.count_live_tiles(), one.count_operations())
                v = []
                one.visit_leaves(lambda pos, tile: v.append(tuple(pos)), parallel=1)
                # `depth` is documented as changeable: the same restricted instance, one level deeper
                if depth <= 3:
                    one.depth = depth + 1
                    m2 = stages.ref_model(kind, depth + 1, acc, apex)
                    deeper = (one.count_leaf_tiles(), one.count_live_tiles(), one.count_operations())
                    v3, w3 = [], []
                    one.visit_leaves(lambda pos, tile: v3.append(tuple(pos)), parallel=1)
                    one.walk(lambda pos: w3.append(tuple(pos)), parallel=1)
                    if deeper != m2.counts() or sorted(v3) != sorted(tuple(p) for p in m2.leaves) or sorted(w3) != sorted(tuple(p) for p in m2.ops):
                        bad("history/depth-changed-after-subpyramid", "after subpyramid(%r) and depth = %d: counts %r, %d leaves visited, %d parents walked; reference %r, %d, %d" % (apex, depth + 1, deeper, len(v3), len(w3), m2.counts(), len(m2.leaves), len(m2.ops)))
                    one.depth = depth
            if after != (n_leaf_ref, n_live_ref, n_ops_ref) or again != after or sorted(v) != sorted(tuple(p) for p in model.leaves):
                bad("history/counts-after-subpyramid", "one instance: counts before subpyramid() %r, after %r (asked again %r), fresh instance / reference %r; leaves visited %d" % (before, after, again, (n_leaf_ref, n_live_ref, n_ops_ref), len(v)))
        except Exception as e:
            bad("history/raises:%s" % type(e).__name__, repr(e))
    else:
        try:
            with quiet():
                # counts asked from INSIDE the callbacks of a traversal of the same instance (a progress reporter)
                re_ops, re_leaves, inner = [], [], []
                rp = mk()
                rp.walk(lambda pos: (re_ops.append(tuple(pos)), inner.append(rp.count_operations())), parallel=1)
                rp.visit_leaves(lambda pos, tile: (re_leaves.append(tuple(pos)), inner.append(rp.count_leaf_tiles())), parallel=1)
                if sorted(re_ops) != sorted(tuple(p) for p in model.ops) or sorted(re_leaves) != sorted(tuple(p) for p in model.leaves) or any(v not in (n_ops_ref, n_leaf_ref) for v in inner):
                    bad("history/counting-inside-a-callback", "a traversal whose callback asks the same pyramid for its counts made %d walk / %d leaf callbacks (expected %d / %d), counts seen %r" % (len(re_ops), len(re_leaves), n_ops_ref, n_leaf_ref, sorted(set(inner))[:4]))
                one = mk()
                a1 = (one.count_leaf_tiles(), one.count_live_tiles(), one.count_operations())
                v = []
                one.visit_leaves(lambda pos, tile: v.append(tuple(pos)), parallel=1)
                w1, w2, v2 = [], [], []
                one.walk(lambda pos: w1.append(tuple(pos)), parallel=1)
                one.walk(lambda pos: w2.append(tuple(pos)), parallel=1)
                one.visit_leaves(lambda pos, tile: v2.append(tuple(pos)), parallel=1)
                a2 = (one.count_leaf_tiles(), one.count_live_tiles(), one.count_operations())
            if w1 != w2 or v != v2 or sorted(w1) != sorted(tuple(p) for p in model.ops):
                bad("history/second-walk-differs", "walking or visiting the same instance twice gives different callbacks (%d vs %d walk callbacks, %d vs %d leaves)" % (len(w1), len(w2), len(v), len(v2)))
            if a1 != a2 or a1 != (n_leaf_ref, n_live_ref, n_ops_ref):
                bad("history/counts-change-between-calls", "one instance: %r then %r, reference %r" % (a1, a2, (n_leaf_ref, n_live_ref, n_ops_ref)))
        except Exception as e:
            bad("history/raises:%s" % type(e).__name__, repr(e))
    # sub-pyramid = the part of the full result below the apex (differential, no reference)
    if apex != (0, 0, 0):
        key = (kind, depth, tuple(acc) if acc is not None else None, cs)
        if key not in full_cache:
            fl, fo = [], []
            with quiet():
                stages.make_pyramid(kind, depth, acc, None, cs).visit_leaves(lambda pos, tile: fl.append(tuple(pos)), parallel=1)
                stages.make_pyramid(kind, depth, acc, None, cs).walk(lambda pos: fo.append(tuple(pos)), parallel=1)
            full_cache.clear()
            full_cache[key] = (fl, fo)
        fl, fo = full_cache[key]
        want_l = sorted(p for p in fl if quadtree.is_descendant_or_self(p, apex))
        want_o = sorted(p for p in fo if quadtree.is_descendant_or_self(p, apex))
        if sorted(lset) != want_l or sorted(ops) != want_o:
            bad("subpyramid-vs-full", "sub-pyramid visits %d leaves / %d parents, the full pyramid has %d / %d below the apex" % (len(lset), len(ops), len(want_l), len(want_o)))


def deep_case(kind, depth, apex, cs, part):
    """Deep pyramids (depth 8..12, where toasty switches on its 'big pyramid' code paths) restricted to an
    apex near the leaves: counts, visited leaves and walked parents against the closed forms and the
    explicit descendant sets."""
    from toasty.pyramid import depth2tiles, tiles_at_depth

    cfg = {"kind": kind, "depth": depth, "accepted": None, "apex": apex, "coordsys": cs, "deep": True}
    part.case(nontrivial=True)

    def bad(clause, detail):
        part.violation("%s/%s/deep" % (clause, kind), "%r: %s" % (cfg, detail), cfg)

    def below(level):
        s = level - apex[0]
        return [(level, apex[1] * 2**s + i, apex[2] * 2**s + j) for j in range(2**s) for i in range(2**s)]

    want_leaves = sorted(below(depth))
    want_ops = sorted(p for lv in range(apex[0], depth) for p in below(lv))
    sub = depth - apex[0]
    closed = (tiles_at_depth(sub), depth2tiles(sub), depth2tiles(sub - 1) if sub >= 1 else 0)

    def mk():
        return stages.make_pyramid(kind, depth, None, apex, cs)

    try:
        with quiet():
            counts = (mk().count_leaf_tiles(), mk().count_live_tiles(), mk().count_operations())
            leaves, ops = [], []
            mk().visit_leaves(lambda pos, tile: leaves.append(tuple(pos)), parallel=1)
            mk().walk(lambda pos: ops.append(tuple(pos)), parallel=1)
    except Exception as e:
        bad("raises:%s" % type(e).__name__, repr(e))
        return
    if counts != closed or counts != (len(want_leaves), len(want_leaves) + len(want_ops), len(want_ops)):
        bad("counts-vs-reference", "counts %r, closed form %r" % (counts, closed))
    if sorted(leaves) != want_leaves:
        bad("leaf-set", "visit_leaves made %d callbacks, %d leaves lie below the apex; differing: %r" % (len(leaves), len(want_leaves), sorted(set(leaves) ^ set(want_leaves))[:3]))
    if sorted(ops) != want_ops:
        bad("walk-set", "walk made %d callbacks, %d parents lie at or below the apex; differing: %r" % (len(ops), len(want_ops), sorted(set(ops) ^ set(want_ops))[:3]))
    idx = {p: i for i, p in enumerate(ops)}
    for p in ops:
        for c in quadtree.children(p):
            c = tuple(c)
            if c in idx and idx[c] > idx[p]:
                bad("walk-order", "%r walked before its child %r" % (p, c))
                return


def deep_cases(tier):
    out = []
    for depth in (8, 9, 10, 11, 12):
        n = 2 ** (depth - 1)
        for apex in [(depth - 1, 0, 0), (depth - 1, n - 1, n // 2), (depth - 2, n // 2 - 1, n // 4), (depth, 2 * n - 1, 3)]:
            for kind in ("generic", "toast"):
                for cs in ((None, "planetary") if kind == "toast" else (None,)):
                    if cs == "planetary" and tier == "quick" and depth not in (9, 10):
                        continue
                    out.append((kind, depth, apex, cs))
    return out


def algebra(depth, part):
    """pos_parent / pos_children / is_subtile / generate_pos mutually consistent."""
    from toasty.pyramid import Pos, pos_parent, pos_children, is_subtile, generate_pos

    allp = [Pos(*p) for p in quadtree.all_positions(depth)]

    def bad(clause, detail):
        part.violation("algebra/%s" % clause, detail, {"depth": depth})

    for p in allp:
        part.case(nontrivial=p.n > 0)
        kids = pos_children(p)
        if [tuple(k) for k in kids] != [tuple(k) for k in quadtree.children(p)]:
            bad("children", "pos_children(%r) = %r" % (tuple(p), kids))
        # what a caller does with the list it was given is its own business (sorting it, consuming it): the
        # next question about the same position gets the same answer
        if isinstance(kids, list) and p.n % 2 == 0:
            kept = [tuple(k) for k in kids]
            kids.reverse()
            kids.pop()
            again = pos_children(p)
            if [tuple(k) for k in again] != kept:
                bad("children-after-caller-changed-its-list", "pos_children(%r) after the caller reversed and shortened the list returned earlier = %r" % (tuple(p), again))
            kids = again
        for j, k in enumerate(kids):
            par_, ix, iy = pos_parent(k)
            if tuple(par_) != tuple(p) or (ix, iy) != (j % 2, j // 2):
                bad("parent-of-child", "pos_parent(%r) = %r,%d,%d but it is child %d of %r" % (tuple(k), tuple(par_), ix, iy, j, tuple(p)))
        if p.n == 0:
            try:
                pos_parent(p)
                bad("parent-of-root", "pos_parent of the level-0 tile did not raise")
            except ValueError:
                pass
    for a in allp:
        for b in allp:
            if b.n > a.n:
                continue
            part.case(nontrivial=True)
            want = quadtree.is_descendant_or_self(a, b)
            if bool(is_subtile(a, b)) != want:
                bad("is_subtile", "is_subtile(%r, %r) = %r" % (tuple(a), tuple(b), is_subtile(a, b)))
    for d in range(depth + 1):
        got = [tuple(p) for p in generate_pos(d)]
        part.case(nontrivial=True)
        if sorted(got) != sorted(tuple(p) for p in quadtree.all_positions(d)) or len(set(got)) != len(got):
            bad("generate_pos-set", "generate_pos(%d) does not yield every position exactly once" % d)
        idx = {p: i for i, p in enumerate(got)}
        for p in got:
            if p[0] < d and any(idx[tuple(c)] > idx[p] for c in quadtree.children(p)):
                bad("generate_pos-order", "generate_pos(%d): %r before one of its children" % (d, p))
                break


def _work(job):
    if job[0] == "e1":
        return stages.explore_to_part(job[1], PROP)
    part = Part()
    if job[0] == "algebra":
        algebra(job[1], part)
        return part
    if job[0] == "deep":
        for (kind, depth, apex, cs) in job[1]:
            deep_case(kind, depth, apex, cs, part)
        part.sample({"deep": True, "kind": job[1][0][0], "depth": job[1][0][1], "apex": job[1][0][2]})
        return part
    cache = {}
    chunk = sorted(job[1], key=lambda c: (c[0], c[1], repr(c[2]), repr(c[4])))
    for i, (kind, depth, acc, apex, cs, _fixed) in enumerate(chunk):
        check_case(kind, depth, acc, apex, cs, part, cache)
        if i in (7, 300):
            part.sample({"kind": kind, "depth": depth, "accepted": acc, "apex": apex})
    return part


def run(tier, seed):
    rep = Report(PROP, tier, seed, "exploration")
    rep.rule = (
        "every (kind, depth, effective filter, apex) of the C01 enumeration: counts vs callbacks vs reference quadtree vs closed forms, "
        "generator order/uniqueness, sub-pyramid vs full; deep pyramids (depth 8..12, generic and TOAST) restricted to apexes 0-2 levels above the leaves; plus position algebra on every pair of positions to depth %d; "
        "non-trivial = filtered or sub-pyramid case with live tiles, or a pair/position below the root; plus 4 configurations of one pyramid object counted, then walked and leaf-visited by 2 worker processes (stateful exploration over the virtual multiprocessing layer; deviation bound 3 in the quick tier)" % (4 if tier == "quick" else 5)
    )
    rep.assumptions = ["depth-2 filters are exhaustive (17^4, both coordinate systems in thorough); depth-3 filters are exhaustive inside each single level-1 quadrant (thorough)"]
    cases = c01.e2_cases(tier)
    # the planetary system for the 51-filter family and unfiltered pyramids (all apexes)
    for f in c01.family51():
        for a in c01.all_apexes(2)[:: (1 if tier == "thorough" else 4)]:
            cases.append(("filtered", 2, f, a, "planetary", False))
    for d in (1, 2):
        cases.append(("toast", d, None, (0, 0, 0), "planetary", False))
    if tier == "thorough":
        cases = cases + c01.e2_extra_cases()
    cases = rng_order(cases, seed)
    n = par.ncores() * 3
    jobs = [("algebra", 4 if tier == "quick" else 5)] + [("cases", cases[i::n]) for i in range(n)]
    dc = deep_cases(tier)
    jobs += [("deep", dc[i::8]) for i in range(8)]
    # the counts against what worker processes visit: one pyramid object counted, walked and leaf-visited in
    # parallel, in both orders (every interleaving within the deviation bound; unbounded in the thorough tier)
    C = stages.CountsVsParallel
    dev = 3 if tier == "quick" else None
    e1 = [
        C(kind="generic", depth=1, W=2, max_deviations=dev, seed=seed),
        C(kind="generic", depth=1, W=2, order=("leaves", "walk"), max_deviations=dev, seed=seed),
        C(kind="filtered", depth=2, W=2, accepted=stages.FILTER_5LEAVES, max_deviations=dev, seed=seed),
        C(kind="generic", depth=2, W=2, apex=(1, 1, 0), order=("leaves", "walk"), max_deviations=dev, seed=seed),
    ]
    jobs = [("e1", c) for c in e1] + jobs
    par.pmap(_work, jobs, rep)
    stages.finish_model_report(rep)
    return rep.finish()


def replay(payload):
    r = payload["replay"]
    if "harness" in r:
        return stages.replay(payload)
    part = Part()
    if "kind" not in r:
        algebra(r["depth"], part)
    elif r.get("deep"):
        deep_case(r["kind"], r["depth"], tuple(r["apex"]), r.get("coordsys"), part)
    else:
        acc = r.get("accepted")
        if acc is not None:
            acc = [tuple(a) for a in acc]
        check_case(r["kind"], r["depth"], acc, tuple(r["apex"]), r.get("coordsys"), part, {})
    for sig, (detail, _) in part.violations.items():
        print("REPLAY-FAIL", sig, detail)
    return 1 if part.violations else 0
