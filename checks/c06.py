"""C06 -- TOAST sampling writes the sampler's values at each tile's own pixel centres.

E2: depth x coordinate system x format/parity x sampler kind x {clobber, update with an
all-accepting filter, update with a partial filter onto an earlier partial sampling},
serial, against sampler(reference pixel coordinates of that tile).  E1: the real
ToastSampler.visit_callback under the virtual multiprocessing layer (lock/read/write of
update mode are choice points), all interleavings, terminal tree = serial tree.
"""
import os
import shutil
import tempfile

import numpy as np

from vt import par, stages
from vt.fixtures import scratch, quiet, rng_order, scratch_root
from vt.harness import Part, Report
from vt.monitors import Monitor
from vt.ref import toastgeom as tg

PROP = "C06"


def g_scalar(lon, lat):
    return (100.0 * np.sin(3 * lon + 0.3) * np.cos(lat) + 37.0 * lat + 5.0 * np.cos(lon)).astype(np.float32)


def g_scalar2(lon, lat):
    v = (50.0 * np.cos(2 * lon) + 80.0 * np.sin(lat) + 300.0).astype(np.float32)
    v[np.sin(5 * lon) * np.cos(3 * lat) > 0.3] = np.nan  # partly undefined: earlier data must survive there
    # infinities are defined values: they must replace earlier data like any other
    v[(np.cos(7 * lon) > 0.97) & (np.abs(lat) < 0.5) & ~np.isnan(v)] = np.inf
    v[(np.cos(7 * lon) < -0.97) & (np.abs(lat) < 0.5) & ~np.isnan(v)] = -np.inf
    return v


def g_rgb(lon, lat):
    r = np.clip((np.sin(3 * lon + 0.3) * np.cos(lat) + 1) * 127.5, 0, 255)
    g = np.clip((lat / np.pi + 0.5) * 255, 0, 255)
    b = np.clip((np.cos(lon) + 1) * 127.5, 0, 255)
    return np.stack([r, g, b], axis=-1).astype(np.uint8)


def g_cheap(lon, lat):
    # for the interleaving explorations (parallel vs serial differential): no trigonometry
    return (lon * 7.0 + lat * 13.0).astype(np.float32)


def g_cheap_rgb(lon, lat):
    v = (lon * 40.0).astype(np.uint8)
    return np.stack([v, (lat * 50.0 + 100).astype(np.uint8), v], axis=-1)


def g_cap(lon, lat):
    # defined only within ~50 degrees of (lon, lat) = (1.0, 0.4): whole tiles elsewhere are undefined
    c = np.sin(lat) * np.sin(0.4) + np.cos(lat) * np.cos(0.4) * np.cos(lon - 1.0)
    v = (200.0 + 30.0 * np.sin(2 * lon) + 20.0 * lat).astype(np.float32)
    v[c < np.cos(np.radians(50.0))] = np.nan
    return v


def g_rgba1(lon, lat):
    # opaque everywhere; pure black (defined!) over bands of latitude
    c = g_rgb(lon, lat)
    c[np.cos(3 * lat) > 0.9] = 0
    return np.concatenate([c, np.full(c.shape[:2] + (1,), 255, np.uint8)], axis=-1)


def g_rgba2(lon, lat):
    # partly transparent: earlier data must survive there
    c = 255 - g_rgb(lon, lat)
    a = np.full(c.shape[:2] + (1,), 255, np.uint8)
    out = np.concatenate([c, a], axis=-1)
    # defined but faint pixels (alpha 128, 1) must replace more opaque earlier data like any defined pixel
    out[np.cos(4 * lon) > 0.8, 3] = 128
    out[np.cos(4 * lon) < -0.9, 3] = 1
    out[np.sin(5 * lon) * np.cos(3 * lat) > 0.3] = 0
    return out


def g_night(lon, lat):
    # a planet's night side: pure black and fully opaque over a whole hemisphere (whole tiles of it), colour elsewhere
    c = g_rgb(lon, lat)
    c[np.cos(lat) * np.cos(lon - 0.4) < 0] = 0
    return np.concatenate([c, np.full(c.shape[:2] + (1,), 255, np.uint8)], axis=-1)


def g_inplace(lon, lat):
    """The scalar sampler written by someone who works in degrees and converts the arrays handed in in place."""
    np.degrees(lon, out=lon)
    np.degrees(lat, out=lat)
    return g_scalar(np.radians(lon), np.radians(lat))


SAMPLERS = {"inplace": g_inplace, "night": g_night, "rgba1": g_rgba1, "rgba2": g_rgba2, "cap": g_cap, "scalar": g_scalar, "scalar2": g_scalar2, "rgb": g_rgb, "cheap": g_cheap, "cheap-rgb": g_cheap_rgb}


def ref_coords(n, x, y, planetary):
    v = tg.pixel_grid(n, x, y, planetary)
    return tg.lonlat(v)


def expected_tile(n, x, y, planetary, sampler):
    lon, lat = ref_coords(n, x, y, planetary)
    return SAMPLERS[sampler](lon, lat)


def read_tile(pio, pos, fmt):
    from toasty.pyramid import Pos

    img = pio.read_image(Pos(*pos), format=fmt)
    if img is None:
        return None
    a = np.asarray(img.asarray())
    return a[::-1] if fmt == "fits" else a


def tiles_on_disk(root, fmt):
    out = set()
    for d, _dirs, files in os.walk(root):
        for f in files:
            if f.endswith("." + fmt):
                rel = os.path.relpath(os.path.join(d, f), root).split(os.sep)
                out.add((int(rel[0]), int(rel[2].split(".")[0].split("_")[1]), int(rel[1])))
    return out


def close_enough(got, want):
    """-> None if equal within the float/quantisation tolerance, else a description."""
    if got.shape != want.shape:
        if got.ndim == 3 and want.ndim == 3 and got.shape[2] == 4 and want.shape[2] == 3:
            if not np.all(got[..., 3] == 255):
                return "alpha channel not opaque"
            got = got[..., :3]
        else:
            return "shape %r, expected %r" % (got.shape, want.shape)
    if want.dtype.kind == "f":
        ng, nw = np.isnan(got), np.isnan(want)
        if not np.array_equal(ng, nw):
            return "undefined pixels differ at %d positions" % int((ng != nw).sum())
        ig, iw = np.isinf(got), np.isinf(want)
        if not np.array_equal(ig, iw) or not np.array_equal(got[ig], want[iw]):
            return "infinite (defined) pixels differ at %d positions" % int((ig != iw).sum() + (got[ig & iw] != want[ig & iw]).sum())
        ng, nw = ng | ig, nw | iw
        d = np.abs(got[~ng].astype(np.float64) - want[~nw].astype(np.float64))
        if d.size and d.max() > 2e-4:
            return "values differ by up to %.4g (at %d pixels)" % (d.max(), int((d > 2e-4).sum()))
        return None
    d = np.abs(got.astype(int) - want.astype(int))
    nbad = int((d > 0).sum())
    if d.max() > 1 or nbad > 6:
        return "%d channel values differ (max %d)" % (nbad, int(d.max()))
    return None


def serial_case(d, depth, planetary, fmt, mode, part):
    from toasty import toast
    from toasty.pyramid import PyramidIO

    cs = toast.ToastCoordinateSystem.PLANETARY if planetary else toast.ToastCoordinateSystem.ASTRONOMICAL
    csn = "planetary" if planetary else "astronomical"
    sampler = "rgb" if fmt == "png" else "scalar"
    cfg = {"depth": depth, "coordsys": csn, "format": fmt, "mode": mode}
    part.case(nontrivial=(depth != 1 or planetary or fmt == "fits" or mode != "clobber"))

    def bad(clause, detail):
        part.violation("%s/depth=%s/%s/%s" % (clause, "0" if depth == 0 else ">=1", fmt, mode), "%r: %s" % (cfg, detail), cfg)

    root = os.path.join(d, "s")
    shutil.rmtree(root, ignore_errors=True)
    pio = PyramidIO(root, default_format=fmt if mode != "clobber-format-override" else "png")
    side = 2**depth
    allpos = [(depth, x, y) for y in range(side) for x in range(side)]
    expected = {}
    bystander = None
    try:
        with quiet():
            if mode == "clobber-inplace-twice":
                # a sampler that uses the coordinate arrays it is handed as scratch space; the layer sampled twice in
                # one process (the second sampling sees the same tiles again)
                toast.sample_layer(pio, SAMPLERS["inplace"], depth, coordsys=cs, parallel=1)
                toast.sample_layer(pio, SAMPLERS["inplace"], depth, coordsys=cs, parallel=1)
                for p in allpos:
                    expected[p] = expected_tile(*p, planetary, "scalar")
            elif mode == "clobber-format-override":
                # the pyramid's default format is PNG; both samplings name another format.  The second one is
                # undefined over whole tiles: their files of THAT format go, a PNG file at such a position stays
                from toasty.pyramid import Pos
                from PIL import Image as PI

                toast.sample_layer(pio, SAMPLERS["scalar"], depth, coordsys=cs, format=fmt, parallel=1)
                gone = [p for p in allpos if np.all(np.isnan(expected_tile(*p, planetary, "cap")))]
                if gone:
                    bystander = pio.tile_path(Pos(*gone[0]), format="png")
                    PI.fromarray(np.full((256, 256, 3), 77, np.uint8)).save(bystander)
                toast.sample_layer(pio, SAMPLERS["cap"], depth, coordsys=cs, format=fmt, parallel=1)
                for p in allpos:
                    e = expected_tile(*p, planetary, "cap")
                    if not np.all(np.isnan(e)):
                        expected[p] = e
            elif mode in ("clobber", "clobber-rgb", "clobber-night"):
                if mode == "clobber-rgb":
                    sampler = "rgb"  # colour data into a numeric tile format (3-D arrays; FITS rows bottom-up)
                if mode == "clobber-night":
                    sampler = "night"
                toast.sample_layer(pio, SAMPLERS[sampler], depth, coordsys=cs, parallel=1)
                for p in allpos:
                    expected[p] = expected_tile(*p, planetary, sampler)
            elif mode == "update-all":
                toast.sample_layer_filtered(pio, lambda t: True, SAMPLERS[sampler], depth, coordsys=cs, parallel=1)
                for p in allpos:
                    expected[p] = expected_tile(*p, planetary, sampler)
            elif mode in ("builder", "builder-filtered"):
                # the Builder entry point (what tile-allsky and the FITS tiler use), with and without a filter
                from toasty.builder import Builder

                kw = {"tile_filter": (lambda t: True)} if mode == "builder-filtered" else {}
                Builder(pio).toast_base(SAMPLERS[sampler], depth, is_planet=planetary, parallel=1, **kw)
                for p in allpos:
                    expected[p] = expected_tile(*p, planetary, sampler)
            elif mode == "clobber-cap":
                # a sampler that is undefined over whole tiles, onto a fresh directory: those tiles are not stored
                toast.sample_layer(pio, SAMPLERS["cap"], depth, coordsys=cs, parallel=1)
                for p in allpos:
                    e = expected_tile(*p, planetary, "cap")
                    if not np.all(np.isnan(e)):
                        expected[p] = e
            elif mode == "cli-allsky":
                # the tile-allsky command on a small plate-carree map: tiles = the documented sampler at the
                # reference coordinates (the samplers themselves are C11's subject)
                from toasty import cli, samplers
                from PIL import Image as PI

                # 30 x 15 cells of 12 degrees: no cell boundary falls on the 45-degree meridians, where TOAST
                # pixel centres lie exactly (such points could legitimately resolve to either neighbour)
                yy, xx = np.mgrid[0:15, 0:30]
                rgbmap = np.stack([(xx * 8) % 256, (yy * 16) % 256, (xx + yy) % 256], axis=-1).astype(np.uint8)
                src = os.path.join(d, "map.png")
                PI.fromarray(rgbmap).save(src)
                proj = "plate-carree-planet" if planetary else "plate-carree"
                cli.entrypoint(["tile-allsky", "--placeholder-thumbnail", "--projection", proj, "--parallelism", "1", "--outdir", root, src, str(depth)])
                smp = (samplers.plate_carree_planet_sampler if planetary else samplers.plate_carree_sampler)(rgbmap)
                for p in allpos:
                    lon, lat = ref_coords(*p, planetary)
                    expected[p] = smp(lon, lat)
            elif mode == "clobber-over-existing":
                # an earlier complete sampling, then a clobbering re-sampling whose sampler is undefined over
                # whole tiles: those tiles must not keep their old content (an all-undefined tile is not stored)
                toast.sample_layer(pio, SAMPLERS["scalar"], depth, coordsys=cs, parallel=1)
                toast.sample_layer(pio, SAMPLERS["cap"], depth, coordsys=cs, parallel=1)
                for p in allpos:
                    e = expected_tile(*p, planetary, "cap")
                    if not np.all(np.isnan(e)):
                        expected[p] = e
            elif mode == "update-partial-rgba":
                # as update-partial, on PNG tiles whose first layer holds opaque pure-black pixels, after the
                # tile-allsky command ran in this process with --black-to-transparent into ANOTHER directory
                # (an input-loading option: it must not reach the tiles that are read back and updated)
                from toasty import cli
                from PIL import Image as PI

                src = os.path.join(d, "bmap.png")
                PI.fromarray(np.zeros((8, 16, 3), np.uint8) + 60).save(src)
                shutil.rmtree(os.path.join(d, "other"), ignore_errors=True)
                cli.entrypoint(["tile-allsky", "--black-to-transparent", "--placeholder-thumbnail", "--parallelism", "1", "--outdir", os.path.join(d, "other"), src, "1"])
                s1 = set(p for k, p in enumerate(allpos) if k % 3 != 2)
                s2 = set(p for k, p in enumerate(allpos) if k % 2 == 0)

                def flt(S):
                    anc = set()
                    for p in S:
                        q = p
                        while q[0] >= 1:
                            anc.add(q)
                            q = (q[0] - 1, q[1] // 2, q[2] // 2)
                    return lambda t: tuple(t.pos) in anc

                toast.sample_layer_filtered(pio, flt(s1), SAMPLERS["rgba1"], depth, coordsys=cs, parallel=1)
                toast.sample_layer_filtered(pio, flt(s2), SAMPLERS["rgba2"], depth, coordsys=cs, parallel=1)
                for p in s1 | s2:
                    a = expected_tile(*p, planetary, "rgba1") if p in s1 else np.zeros((256, 256, 4), np.uint8)
                    if p in s2:
                        b = expected_tile(*p, planetary, "rgba2")
                        a = np.where(b[..., 3:4] == 0, a, b)
                    expected[p] = a
            elif mode == "update-partial":
                # an earlier partial sampling (set S1), then a second one (set S2, overlapping) whose sampler
                # is undefined in places: defined source pixels replace, undefined ones leave the old data
                s1 = set(p for k, p in enumerate(allpos) if k % 3 != 2)
                s2 = set(p for k, p in enumerate(allpos) if k % 2 == 0)

                def flt(S):
                    anc = set()
                    for p in S:
                        q = p
                        while q[0] >= 1:
                            anc.add(q)
                            q = (q[0] - 1, q[1] // 2, q[2] // 2)
                    return lambda t: tuple(t.pos) in anc

                toast.sample_layer_filtered(pio, flt(s1), SAMPLERS["scalar"], depth, coordsys=cs, parallel=1)
                toast.sample_layer_filtered(pio, flt(s2), SAMPLERS["scalar2"], depth, coordsys=cs, parallel=1)
                for p in s1 | s2:
                    a = expected_tile(*p, planetary, "scalar") if p in s1 else np.full((256, 256), np.nan, np.float32)
                    if p in s2:
                        b = expected_tile(*p, planetary, "scalar2")
                        a = np.where(np.isnan(b), a, b)
                    expected[p] = a
    except SystemExit as e:
        bad("exits", "exit code %r" % (e.code,))
        return
    except Exception as e:
        bad("raises:%s" % type(e).__name__, repr(e))
        return
    if bystander is not None and not os.path.exists(bystander):
        bad("file-of-another-format-removed", "a PNG file at a position whose %s tile became entirely undefined was removed" % fmt)
    got_set = tiles_on_disk(root, fmt)
    if got_set != set(expected):
        bad("tile-set", "files for %r missing, unexpected files %r" % (sorted(set(expected) - got_set)[:3], sorted(got_set - set(expected))[:3]))
    for p in sorted(got_set & set(expected)):
        g = read_tile(pio, p, fmt)
        msg = close_enough(g, expected[p])
        if msg:
            # classify a row-order problem
            alt = close_enough(g[::-1], expected[p])
            clause = "rows-reversed" if alt is None else "pixels"
            bad(clause, "tile %r: %s" % (p, msg))
            break
    if any(f.endswith(".lock") for _d, _s, fs in os.walk(root) for f in fs):
        bad("lock-files-remain", "lock files left under the output directory")


def _serial_job(cases):
    part = Part()
    with scratch("c06") as d:
        for c in cases:
            serial_case(d, *c, part=part)
        part.sample({"depth": cases[0][0], "planetary": cases[0][1], "format": cases[0][2], "mode": cases[0][3]})
    return part


# --- E1 ---------------------------------------------------------------------------------------


class SampleHarness(stages.StageHarness):
    stage = "sample_layer"
    io_points = True
    flt = "all"

    def expected_items(self):
        return []

    def _serial_tree(self):
        if getattr(self, "_ser", None) is None:
            root = tempfile.mkdtemp(prefix="verif-c06s-", dir=scratch_root())
            try:
                self._run(root, 1)
                self._ser = self._tree(root)
            finally:
                shutil.rmtree(root, ignore_errors=True)
        return self._ser

    def _tree(self, root):
        from toasty.pyramid import PyramidIO

        pio = PyramidIO(root, default_format=self.fmt)
        return {p: read_tile(pio, p, self.fmt) for p in tiles_on_disk(root, self.fmt)}

    def _run(self, root, W):
        from toasty import toast
        from toasty.pyramid import PyramidIO

        pio = PyramidIO(root, default_format=self.fmt)
        sampler = SAMPLERS["cheap-rgb" if self.fmt == "png" else "cheap"]
        with quiet():
            if self.mode == "clobber":
                toast.sample_layer(pio, sampler, self.depth, parallel=W)
            else:
                toast.sample_layer_filtered(pio, _FILTERS[self.flt], sampler, self.depth, parallel=W)

    def fresh(self):
        from toasty import toast
        from toasty.pyramid import PyramidIO

        _memoize_coords()
        self._serial_tree()
        root = tempfile.mkdtemp(prefix="verif-c06-", dir=scratch_root())
        pio = PyramidIO(root, default_format=self.fmt)
        sampler = SAMPLERS["cheap-rgb" if self.fmt == "png" else "cheap"]
        W, depth, mode, flt = self.W, self.depth, self.mode, getattr(self, "flt", "all")

        def main():
            if mode == "clobber":
                toast.sample_layer(pio, sampler, depth, parallel=W)
            else:
                toast.sample_layer_filtered(pio, _FILTERS[flt], sampler, depth, parallel=W)

        return main, Monitor(), root

    def cleanup(self, root):
        shutil.rmtree(root, ignore_errors=True)

    def at_terminal(self, sched, mon):
        viol = []
        main = sched.main()
        if main.outcome[0] != "return":
            return [("stage-raised", "%s: %s" % (main.outcome[1], main.outcome[2]))], ("raise",)
        got = self._tree(sched.root)
        ser = self._ser
        ok = set(got) == set(ser) and all(np.array_equal(got[p], ser[p], equal_nan=got[p].dtype.kind == "f") for p in got)
        if not ok:
            viol.append(("parallel-result-differs-from-serial", "tiles %r vs serial %r" % (sorted(got)[:4], sorted(ser)[:4])))
        if any(f.endswith(".lock") for f in stages._walk_files(sched.root)):
            viol.append(("lock-files-remain", "lock files left"))
        if [p.name for p in sched.procs[1:] if not p.done]:
            viol.append(("returned-before-workers-exited", ""))
        return viol, ("same" if ok else "differs",)


_COORDS_CACHE = {}


def _memoize_coords():
    """The compiled coordinate computation costs ~30 ms per tile and is a pure function of the
    tile; the interleaving explorations re-run it thousands of times, so it is memoised there
    (the real function still runs once per distinct tile in every process)."""
    from toasty import toast

    if getattr(toast.toast_tile_get_coords, "_vt_cached", False):
        return
    real = toast.toast_tile_get_coords

    def cached(tile):
        key = (tuple(tile.pos), tuple(tuple(float(v) for v in c) for c in tile.corners), bool(tile.increasing))
        r = _COORDS_CACHE.get(key)
        if r is None:
            r = _COORDS_CACHE[key] = real(tile)
        return r[0].copy(), r[1].copy()

    cached._vt_cached = True
    toast.toast_tile_get_coords = cached


def _all_true(t):
    return True


def _two_tiles(t):
    return tuple(t.pos) in ((1, 0, 0), (1, 1, 1))


_FILTERS = {"all": _all_true, "two": _two_tiles}


stages.HARNESSES["SampleHarness"] = SampleHarness


def _job(j):
    if j[0] == "e1":
        return stages.explore_to_part(j[1], PROP)
    return _serial_job(j[1])


def run(tier, seed):
    rep = Report(PROP, tier, seed, "model_checking")
    depths = [0, 1, 2] if tier == "quick" else [0, 1, 2, 3]
    rep.rule = (
        "E2: depth %r x 2 coordinate systems x formats {png/RGB sampler, npy/F32, fits/F32 bottom-up} x {clobber, update with all-true filter, "
        "update of an earlier partial sampling by an overlapping partly-undefined one}; every pixel of every tile vs sampler(reference coordinates). "
        "E1: real ToastSampler under the virtual scheduler, all interleavings; states = canonical states; non-trivial = anything but depth-1/astronomical/top-down/clobber"
        % (depths,)
    )
    rep.assumptions = stages.ASSUMPTIONS + ["float samples compared to 2e-4 absolute (float32 rounding of a smooth sampler); uint8 samples may differ by one count at <= 6 positions per tile (quantisation boundaries)", "jpg (lossy) and HEALPix samplers (healpy absent) are not covered"]
    cases = []
    for depth in depths:
        for planetary in (False, True):
            for fmt in ("png", "npy", "fits"):
                for mode in ("clobber", "update-all", "update-partial", "clobber-over-existing", "clobber-cap", "cli-allsky", "update-partial-rgba", "builder", "builder-filtered", "clobber-rgb", "clobber-night", "clobber-inplace-twice", "clobber-format-override"):
                    if mode == "clobber-inplace-twice" and (fmt == "png" or depth not in (1, 2)):
                        continue
                    if mode == "clobber-format-override" and (fmt == "png" or depth != 2):
                        continue
                    if mode.startswith("builder") and (depth == 3 or (depth == 0 and mode == "builder-filtered")):
                        continue
                    if mode == "clobber-rgb" and (fmt == "png" or depth not in (1, 2)):
                        continue
                    if mode == "clobber-night" and (fmt != "png" or depth not in (2, 3)):
                        continue
                    if mode == "clobber-cap" and (fmt == "png" or depth < 2):
                        continue
                    if mode == "cli-allsky" and (fmt != "png" or depth not in (1, 2)):
                        continue
                    if mode == "update-partial-rgba" and (fmt != "png" or depth not in (1, 2)):
                        continue
                    if mode == "update-partial" and (fmt == "png" or depth == 0):
                        continue
                    if mode == "clobber-over-existing" and (fmt == "png" or depth < 2):
                        continue
                    if depth == 3 and (fmt == "png" or mode != "clobber"):
                        continue
                    cases.append((depth, planetary, fmt, mode))
    cases = rng_order(cases, seed)
    jobs = [("serial", [c]) for c in cases]
    cfgs = [SampleHarness(depth=1, W=2, fmt="npy", mode="clobber", io_points=False), SampleHarness(depth=1, W=2, fmt="fits", mode="update", flt="two")]
    if tier == "thorough":
        cfgs += [SampleHarness(depth=1, W=2, fmt="fits", mode="update"), SampleHarness(depth=1, W=2, fmt="png", mode="update", flt="two"), SampleHarness(depth=1, W=3, fmt="npy", mode="clobber", io_points=False)]
    for c in cfgs:
        c.seed = seed
    jobs = [("e1", c) for c in cfgs] + jobs
    par.pmap(_job, jobs, rep)
    stages.finish_model_report(rep)
    return rep.finish()


def replay(payload):
    r = payload["replay"]
    if "schedule" in r:
        return stages.replay(payload)
    part = Part()
    with scratch("c06r") as d:
        serial_case(d, r["depth"], r["coordsys"] == "planetary", r["format"], r["mode"], part)
    for sig, (detail, _) in part.violations.items():
        print("REPLAY-FAIL", sig, detail[:400])
    return 1 if part.violations else 0
