"""C11 -- plate-carree samplers return the source pixel containing each sky point.

Bounded-exhaustive: every cell of every map shape in a small domain (including 1-pixel
axes and odd sizes), points constructed from the documented layout (centre, near each
edge, on corners and edges), all at several 2*pi shifts, for the five documented sampler
variants, scalar and RGB maps, three request shapes.
"""
import itertools

import numpy as np

from vt import par
from vt.harness import Part, Report

PROP = "C11"
TWOPI = 2 * np.pi
VARIANTS = ["plate_carree_sampler", "plate_carree_zeroright_sampler", "plate_carree_planet_sampler", "plate_carree_planet_zeroleft_sampler", "plate_carree_galactic_sampler"]
SHIFTS = [0, -2, -1, 1, 3]


def cell_lon_edges(variant, ix, nx):
    """(lon at the cell's left edge, lon at its right edge) under the documented layout."""
    w = TWOPI / nx
    if variant in ("plate_carree_sampler", "plate_carree_galactic_sampler"):
        return np.pi - ix * w, np.pi - (ix + 1) * w  # increasing to the left, 0 at the centre
    if variant == "plate_carree_zeroright_sampler":
        return TWOPI - ix * w, TWOPI - (ix + 1) * w  # increasing to the left, 0 at the right edge
    if variant == "plate_carree_planet_sampler":
        return -np.pi + ix * w, -np.pi + (ix + 1) * w  # increasing to the right, 0 at the centre
    if variant == "plate_carree_planet_zeroleft_sampler":
        return ix * w, (ix + 1) * w  # increasing to the right, 0 at the left edge
    raise ValueError(variant)


def build_points(variant, ny, nx):
    """-> arrays lon, lat and for each point the set of acceptable (iy, ix) cells."""
    lons, lats, accept = [], [], []
    h = np.pi / ny
    fr_in = [(0.5, 0.5), (0.125, 0.5), (0.875, 0.5), (0.5, 0.125), (0.5, 0.875), (0.125, 0.875)]
    fr_bd = [(0.0, 0.0), (1.0, 0.0), (0.0, 1.0), (1.0, 1.0), (0.5, 0.0), (0.5, 1.0), (0.0, 0.5), (1.0, 0.5)]
    for iy in range(ny):
        top = np.pi / 2 - iy * h
        for ix in range(nx):
            l0, l1 = cell_lon_edges(variant, ix, nx)
            for fx, fy in fr_in:
                lons.append(l0 + fx * (l1 - l0))
                lats.append(top - fy * h)
                accept.append({(iy, ix)})
            for fx, fy in fr_bd:
                lons.append(l0 + fx * (l1 - l0))
                lats.append(max(-np.pi / 2, min(np.pi / 2, top - fy * h)))
                xs = {ix}
                if fx == 0.0:
                    xs.add((ix - 1) % nx)
                if fx == 1.0:
                    xs.add((ix + 1) % nx)
                ys = {iy}
                if fy == 0.0 and iy > 0:
                    ys.add(iy - 1)
                if fy == 1.0 and iy < ny - 1:
                    ys.add(iy + 1)
                accept.append({(y, x) for y in ys for x in xs})
    return np.array(lons), np.array(lats), accept


def ref_cells(variant, lon, lat, ny, nx, tol):
    """Acceptable (iy, ix) cells of an arbitrary point under the documented layout (points within tol radians of a
    cell boundary may resolve to either side)."""
    w, h = TWOPI / nx, np.pi / ny
    if variant in ("plate_carree_sampler", "plate_carree_galactic_sampler"):
        u = (np.pi - lon) % TWOPI
    elif variant == "plate_carree_zeroright_sampler":
        u = (TWOPI - lon) % TWOPI
    elif variant == "plate_carree_planet_sampler":
        u = (lon + np.pi) % TWOPI
    else:
        u = lon % TWOPI
    v = np.pi / 2 - lat
    xs = {int(np.floor(u / w)) % nx, int(np.floor((u - tol) / w)) % nx, int(np.floor((u + tol) / w)) % nx}
    ys = {min(ny - 1, max(0, int(np.floor(t / h)))) for t in (v, v - tol, v + tol)}
    return {(y, x) for y in ys for x in xs}


def to_icrs(l, b):
    from astropy.coordinates import Galactic, ICRS
    import astropy.units as u

    c = Galactic(l * u.rad, b * u.rad).transform_to(ICRS())
    return c.ra.rad, c.dec.rad


def case(job):
    from toasty import samplers

    variant, ny, nx, rgb, req = job
    part = Part()
    cfg = {"variant": variant, "map_shape": (ny, nx), "rgb": rgb, "request_shape": req}
    idx = np.arange(ny * nx).reshape(ny, nx)
    if rgb:
        data = np.stack([idx % 251, idx // 251, np.full_like(idx, 7)], axis=-1).astype(np.uint8)
    else:
        # maps in native and in big-endian byte order (what the FITS loader hands out), several widths
        data = idx.astype([np.float64, ">f8", ">f4", ">i4", np.int32, ">i2"][(ny * 3 + nx) % 6] if ny * nx < 30000 else np.float64)
    pristine = data.copy()
    lon, lat, accept = build_points(variant, ny, nx)
    galactic = variant == "plate_carree_galactic_sampler"
    if galactic:
        # pull boundary points' acceptable sets wider is not needed: only interior points are judged
        keep = [k for k, a in enumerate(accept) if len(a) == 1 and abs(lat[k]) < np.pi / 2 - 1e-6]
        lon, lat, accept = lon[keep], lat[keep], [accept[k] for k in keep]
        lon, lat = to_icrs(lon % TWOPI, lat)

    def bad(clause, detail, extra=None):
        c = dict(cfg)
        c.update(extra or {})
        part.violation("%s/%s" % (clause, variant), "%r: %s" % (c, detail), c)

    try:
        sampler = getattr(samplers, variant)(data)
        # a second sampler over a different map stays alive and is called in between (no shared state)
        other = getattr(samplers, variant)(np.zeros((ny + 1, nx + 2) + data.shape[2:], dtype=data.dtype))
        # ... and further samplers built from the SAME map array: they answer every other request, and the
        # caller's map must come out of all this unchanged
        again = [sampler, getattr(samplers, variant)(data), getattr(samplers, variant)(data)]
    except Exception as e:
        bad("constructor-raises:%s" % type(e).__name__, repr(e))
        return part
    npts = len(lon)
    n_req = int(np.prod(req))
    # acceptable cells per point as a padded table (every element of a request is judged, also where a large
    # request wraps around the point list)
    acc4 = np.full((npts, 4), -1, dtype=np.int64)
    for k, a in enumerate(accept):
        for j, (cy, cx) in enumerate(sorted(a)):
            acc4[k, j] = cy * nx + cx
    for sh in SHIFTS:
        if galactic and sh not in (0, 1):
            continue
        for start in range(0, npts, n_req):
            sel = np.arange(start, start + n_req) % npts
            qlon = (lon[sel] + sh * TWOPI).reshape(req)
            qlat = lat[sel].reshape(req)
            # memory layout of the request: C order, Fortran order, a transposed view, or the two arrays laid out
            # differently (the answer is defined element by element, whatever the strides)
            lay = (start // n_req + sh) % 4 if len(req) == 2 and req[0] > 1 and req[1] > 1 else 0
            if lay == 1:
                qlon, qlat = np.asfortranarray(qlon), np.asfortranarray(qlat)
            elif lay == 2:
                qlon, qlat = np.ascontiguousarray(qlon.T).T, np.ascontiguousarray(qlat.T).T
            elif lay == 3:
                qlon = np.asfortranarray(qlon)
            use = again[(start // n_req) % 3]
            part.case(nontrivial=(ny == 1 or nx == 1 or ny % 2 == 1 or nx % 2 == 1 or sh != 0), n=min(n_req, npts - start))
            try:
                other(qlon.reshape(-1)[:1], qlat.reshape(-1)[:1])
                out = np.asarray(use(qlon, qlat))
            except Exception as e:
                bad("raises:%s" % type(e).__name__, repr(e), {"lon_shift_turns": sh})
                break
            want_shape = tuple(req) + ((3,) if rgb else ())
            if out.shape != want_shape:
                bad("result-shape", "result shape %r for request %r" % (out.shape, tuple(req)), {"lon_shift_turns": sh})
                break
            flat = out.reshape((n_req, 3)) if rgb else out.reshape(n_req)
            if rgb:
                cell = flat[:, 0].astype(int) + 251 * flat[:, 1].astype(int)
            else:
                cell = flat.astype(int)
            okq = (np.asarray(cell, dtype=np.int64)[:, None] == acc4[sel]).any(axis=1)
            if not okq.all():
                q = int(np.argmin(okq))
                k = sel[q]
                got = (int(cell[q]) // nx, int(cell[q]) % nx)
                kind = "interior" if len(accept[k]) == 1 else "boundary"
                clause = "wrong-cell/%s%s%s" % (kind, "/shifted-longitude" if sh else "", "/beyond-one-tile-of-points" if q >= 65536 else "")
                bad(clause, "element %d of the request: lon=%.12f lat=%.12f (shift %d turns) sampled cell %r, layout says %r (%d of %d elements wrong)" % (q, lon[k], lat[k], sh, got, sorted(accept[k]), int((~okq).sum()), n_req), {"lon": float(lon[k]), "lat": float(lat[k]), "lon_shift_turns": sh})
                break
    # request patterns a cache or an in-place shortcut would get wrong: two requests of one shape with the
    # same first and last point but different interior; read-only inputs; inputs must come back unchanged
    if npts >= 4:
        n2 = min(npts, 12)
        base_idx = np.arange(n2)
        perm = np.concatenate([[0], base_idx[1:-1][::-1], [n2 - 1]])
        for idx in (base_idx, perm):
            qlon = np.array(lon[idx]).reshape(1, n2)
            qlat = np.array(lat[idx]).reshape(1, n2)
            keep_lon, keep_lat = qlon.copy(), qlat.copy()
            qlon.setflags(write=False)
            qlat.setflags(write=False)
            part.case(nontrivial=True, n=n2)
            try:
                out = np.asarray(sampler(qlon, qlat))
            except Exception as e:
                bad("raises-on-read-only-request:%s" % type(e).__name__, repr(e))
                break
            if not (np.array_equal(qlon, keep_lon) and np.array_equal(qlat, keep_lat)):
                bad("request-arrays-modified", "the sampler changed the caller's coordinate arrays")
                break
            if out.shape != ((1, n2, 3) if rgb else (1, n2)):
                bad("result-shape", "result shape %r for a request of shape %r" % (out.shape, (1, n2)))
                break
            flat = out.reshape((n2, 3)) if rgb else out.reshape(n2)
            cell = (flat[:, 0].astype(int) + 251 * flat[:, 1].astype(int)) if rgb else flat.astype(int)
            wrong = [int(k) for q, k in enumerate(idx) if (int(cell[q]) // nx, int(cell[q]) % nx) not in accept[k]]
            if wrong:
                bad("wrong-cell/second-request-same-endpoints", "a request with the same shape and end points as the previous one but different interior points got %d wrong cells" % len(wrong))
                break
    # results the caller keeps: the answer to an earlier request must not change when the sampler is asked again
    # (same shape, other points)
    if npts >= 4:
        n2 = min(npts, 12)
        try:
            i1 = np.arange(n2)
            i2 = (np.arange(n2) * 5 + 3) % npts
            part.case(nontrivial=True, n=2 * n2)
            r1 = sampler(np.array(lon[i1]), np.array(lat[i1]))
            r1_copy = np.array(r1, copy=True)
            r2 = sampler(np.array(lon[i2]), np.array(lat[i2]))
            if not np.array_equal(np.asarray(r1), r1_copy):
                bad("earlier-result-changed", "the array returned for one request changed when the sampler answered the next request of the same shape (%d values differ)" % int((np.asarray(r1) != r1_copy).sum()))
            r2_copy = np.array(r2, copy=True)
            other(np.array(lon[i1]), np.array(lat[i1]))
            again[1](np.array(lon[i1]), np.array(lat[i1]))
            if not np.array_equal(np.asarray(r2), r2_copy):
                bad("earlier-result-changed", "the array returned for one request changed when ANOTHER sampler answered a request of the same shape")
        except Exception as e:
            bad("raises:%s" % type(e).__name__, repr(e))
    # coordinates in other number types: integers (whole radians, also outside one turn) and 32-bit floats
    if not galactic and ny * nx <= 90000:
        li = np.array([-13, -7, -4, -1, 0, 1, 2, 3, 4, 5, 6, 7, 9, 13, 20, -20])
        bi = np.array([-1, 0, 1, 1, 0, -1, 0, 1, -1, 0, 0, 1, -1, 0, 1, -1])
        for tname, conv, tol in (("int64", np.int64, 1e-9), ("int32", np.int32, 1e-9), ("float32", np.float32, 4e-6), ("float64-readonly", np.float64, 1e-9)):
            qlon, qlat = li.astype(conv), bi.astype(conv)
            if tname.endswith("readonly"):
                qlon.setflags(write=False)
                qlat.setflags(write=False)
            part.case(nontrivial=True, n=len(li))
            try:
                out = np.asarray(sampler(qlon, qlat))
            except Exception as e:
                bad("raises-on-%s-coordinates:%s" % (tname, type(e).__name__), repr(e))
                continue
            if out.shape != ((len(li), 3) if rgb else (len(li),)):
                bad("result-shape", "result shape %r for a request of shape %r (%s coordinates)" % (out.shape, (len(li),), tname))
                continue
            flat = out.reshape((len(li), 3)) if rgb else out.reshape(len(li))
            cell = (flat[:, 0].astype(int) + 251 * flat[:, 1].astype(int)) if rgb else flat.astype(int)
            wrong = []
            for q in range(len(li)):
                acc = ref_cells(variant, float(qlon[q]), float(qlat[q]), ny, nx, tol)
                if (int(cell[q]) // nx, int(cell[q]) % nx) not in acc:
                    wrong.append((int(li[q]), int(bi[q]), (int(cell[q]) // nx, int(cell[q]) % nx), sorted(acc)))
            if wrong:
                bad("wrong-cell/number-type", "coordinates given as %s: %d of %d points in the wrong cell, e.g. (lon, lat, got, layout) = %r" % (tname, len(wrong), len(li), wrong[0]))
    if not (data.dtype == pristine.dtype and np.array_equal(data, pristine)):
        bad("map-array-modified", "building or calling samplers changed the caller's map array (dtype %s -> %s, %d values differ)" % (pristine.dtype, data.dtype, int((np.asarray(data, dtype=np.float64) != np.asarray(pristine, dtype=np.float64)).sum())))
    part.sample(cfg)
    return part


def run(tier, seed):
    rep = Report(PROP, tier, seed, "exploration")
    sizes = [1, 2, 3, 4, 5, 16] if tier == "quick" else [1, 2, 3, 4, 5, 7, 8, 16, 17, 31, 32, 64, 90]
    rep.rule = (
        "5 sampler variants x map shapes (ny, nx) in %r squared (plus axis lengths 127..129, 255..257 - thorough also 32767..32769, 65535, 65536 - against a short other axis) x {scalar, RGB} x request shapes "
        "(1-D and 2-D, up to 300x300 and 70001 points, i.e. larger than and not a multiple of one tile); per cell 6 interior and 8 boundary points, "
        "each at longitude shifts of %r turns (Galactic: interior points only, after an astropy Galactic->ICRS conversion); "
        "maps in native and big-endian byte order, three samplers built from one map array answering in turn, requests in C / Fortran / transposed / mixed memory layout; results of earlier requests kept and compared after later ones; whole-radian coordinates as int64 / int32 / float32 / read-only float64 arrays against the layout formula; evaluations = points sampled; non-trivial = 1-pixel or odd axis, or shifted longitude" % (sizes, SHIFTS)
    )
    rep.assumptions = ["plate_carree_ecliptic_sampler has no documented layout in the statement and is not covered", "boundary points may resolve to any adjacent cell"]
    jobs = []
    for v in VARIANTS:
        for ny, nx in itertools.product(sizes, sizes):
            if v == "plate_carree_galactic_sampler" and (ny * nx > 64 and tier == "quick"):
                continue
            for rgb in (False, True):
                if rgb and (ny + nx) % 3 and tier == "quick":
                    continue
                req = [(3, 5), (1, 1), (256, 256), (7,), (257, 256), (70001,)][(ny + nx + int(rgb)) % 6]
                if req == (1, 1) and ny * nx > 16:
                    req = (3, 5)
                jobs.append((v, ny, nx, rgb, req))
        # axis lengths at the limits of the narrow integer types (an index one past the end must not wrap),
        # paired with a short other axis; requests larger than one tile and not a multiple of it
        edge = [127, 128, 129, 255, 256, 257] + ([32767, 32768, 32769, 65535, 65536] if tier == "thorough" else [])
        for k, n in enumerate(edge):
            for m in (2, 5):
                if v == "plate_carree_galactic_sampler" and n * m > 1300 and tier == "quick":
                    continue
                big = n > 1000
                jobs.append((v, n, m, False, (300, 300) if not big else (70001,)))
                jobs.append((v, m, n, bool(k % 2) and not big, (257, 256) if not big else (65537,)))
    par.pmap(case, jobs, rep, chunksize=1)
    return rep.finish()


def replay(payload):
    r = payload["replay"]
    p = case((r["variant"], r["map_shape"][0], r["map_shape"][1], r["rgb"], tuple(r["request_shape"])))
    for sig, (detail, _) in p.violations.items():
        print("REPLAY-FAIL", sig, detail[:300])
    return 1 if p.violations else 0
