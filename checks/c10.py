"""C10 -- concurrent updates of one tile never lose a contribution.

E1: N virtual processes run the real `PyramidIO.update_image` read-modify-write blocks over
the virtual lock / tile-I/O layer; every interleaving of lock-acquire, read, write-begin,
write-end and release steps is explored.  Oracle: the final tile equals the result of
applying the updates in some serial order; no read/write or write/write overlap on a
path; no lock file remains; no deadlock; termination from every state.
"""
import itertools
import multiprocessing
import os
import shutil
import tempfile
import threading

import numpy as np

from vt import par, stages, vmp
from vt.explore import Harness, explore, run_labels
from vt.fixtures import scratch_root, scratch, quiet
from vt.harness import Part, Report
from vt.monitors import Monitor

PROP = "C10"


def _region_sampler(y0, y1, x0, x1, value):
    def sampler(lon, lat):
        v = np.full(lon.shape, np.nan, dtype=np.float32)
        v[y0:y1, x0:x1] = value
        return v

    return sampler


_ESTALE_REG = {}  # virtual process (thread) -> [] until its one injected read fault has fired
_FLAKY = []


def _install_flaky_loader():
    """One permanent wrapper around ImageLoader.load_path (the same function object in every execution): for a process
    registered in _ESTALE_REG the first load of an existing file fails with ESTALE."""
    if _FLAKY:
        return
    import errno
    from toasty import image as _im

    real_load = _im.ImageLoader.load_path

    def flaky(self, path, *a, **k):
        st = _ESTALE_REG.get(threading.get_ident())
        if st is not None and not st and os.path.exists(path):
            st.append(1)
            raise OSError(errno.ESTALE, "Stale file handle (injected)")
        return real_load(self, path, *a, **k)

    _im.ImageLoader.load_path = flaky
    _FLAKY.append(flaky)


def updater(pio, updates, fmt):
    """One process: a sequence of read-modify-write blocks, as toasty's tiling workers do."""
    from toasty.image import Image, ImageMode
    from toasty.pyramid import Pos

    for pos, (y0, y1, x0, x1), value in updates:
        if isinstance(value, str) and value.startswith("sampler:"):
            # the non-clobbering TOAST sampling path (ToastSampler.visit_callback), as a second sampling
            # run over an existing layer uses it
            from toasty.toast import ToastSampler, create_single_tile

            v = float(value.split(":")[1])
            ts = ToastSampler(pio, _region_sampler(y0, y1, x0, x1, v), False)
            ts.visit_callback(Pos(*pos), create_single_tile(Pos(*pos)))
            continue
        if value == "abort":
            # an update that fails in its body (the caller's processing of this tile raises inside the `with` block)
            # and is given up: it contributes nothing, and must take nothing away from the other updaters
            try:
                with pio.update_image(Pos(*pos), masked_mode=ImageMode.F32, default="masked", format=fmt) as basis:
                    raise stages.InjectedFault("injected failure in the body of an update of %r" % (pos,))
            except stages.InjectedFault:
                pass
            continue
        if isinstance(value, str) and value.startswith("estale:"):
            # the read of the EXISTING tile under the lock fails once with a transient error (ESTALE, what a network file
            # system answers when another host has just replaced the file); the updater retries its update.  The failed
            # attempt must leave the tile as it was
            v = float(value.split(":")[1])
            _install_flaky_loader()
            _ESTALE_REG[threading.get_ident()] = []
            try:
                for _attempt in range(3):
                    try:
                        with pio.update_image(Pos(*pos), masked_mode=ImageMode.F32, default="masked", format=fmt) as basis:
                            Image.from_array(np.full((y1 - y0, x1 - x0), v, dtype=np.float32)).update_into_maskable_buffer(basis, slice(0, y1 - y0), slice(0, x1 - x0), slice(y0, y1), slice(x0, x1))
                        break
                    except OSError:
                        continue
            finally:
                _ESTALE_REG.pop(threading.get_ident(), None)
            continue
        if value == "abort-write":
            # an update whose write-back fails (disk full) before anything is written: as if it had never happened
            def _failing_write(*a, **k):
                raise stages.InjectedOSError(28, "No space left on device (injected)")

            pio.write_image = _failing_write
            try:
                with pio.update_image(Pos(*pos), masked_mode=ImageMode.F32, default="masked", format=fmt) as basis:
                    Image.from_array(np.full((y1 - y0, x1 - x0), 9.0, dtype=np.float32)).update_into_maskable_buffer(basis, slice(0, y1 - y0), slice(0, x1 - x0), slice(y0, y1), slice(x0, x1))
            except stages.InjectedOSError:
                pass
            finally:
                del pio.write_image
            continue
        if value is None:
            # a contribution that defines no pixel at all (an input that is undefined over this tile)
            src = Image.from_array(np.full((y1 - y0, x1 - x0), np.nan, dtype=np.float32))
        else:
            src = Image.from_array(np.full((y1 - y0, x1 - x0), value, dtype=np.float32))
        with pio.update_image(Pos(*pos), masked_mode=ImageMode.F32, default="masked", format=fmt) as basis:
            src.update_into_maskable_buffer(basis, slice(0, y1 - y0), slice(0, x1 - x0), slice(y0, y1), slice(x0, x1))


def serial_results(procs):
    """All tiles obtainable by running the processes' update lists in some serial
    interleaving that respects each process's own order."""
    seqs = [list(u) for u in procs]
    results = set()
    out = []

    def rec(idx, tiles):
        if all(i == len(s) for i, s in zip(idx, seqs)):
            key = tuple(sorted((p, t.tobytes()) for p, t in tiles.items()))
            if key not in results:
                results.add(key)
                out.append({p: t.copy() for p, t in tiles.items()})
            return
        for k, s in enumerate(seqs):
            if idx[k] < len(s):
                pos, (y0, y1, x0, x1), value = s[idx[k]]
                t2 = {p: t.copy() for p, t in tiles.items()}
                if value in ("abort", "abort-write"):
                    rec(idx[:k] + (idx[k] + 1,) + idx[k + 1 :], t2)
                    continue
                t = t2.setdefault(tuple(pos), np.full((256, 256), np.nan, dtype=np.float32))
                if isinstance(value, str):
                    value = float(value.split(":")[1])
                if value is not None:
                    t[y0:y1, x0:x1] = value
                rec(idx[:k] + (idx[k] + 1,) + idx[k + 1 :], t2)

    rec(tuple(0 for _ in seqs), {})
    return out


class UpdateHarness(Harness):
    io_points = True
    stage = "update_image"
    max_states = 400000
    seed = 0

    def __init__(self, name, procs, scheme="L/Y/YX", default_format="npy", fmt=None, main_updates=None):
        self.name = name
        self.main_updates = main_updates  # updates the top-level process makes itself, alongside its children
        self.procs = procs
        self.scheme = scheme
        self.default_format = default_format
        self.fmt = fmt
        self._serial = None

    def _all(self):
        return list(self.procs) + ([self.main_updates] if self.main_updates else [])

    def describe(self):
        return {"name": self.name, "procs": self.procs, "scheme": self.scheme, "default_format": self.default_format, "fmt": self.fmt, "main_updates": self.main_updates}

    def fresh(self):
        from toasty.pyramid import PyramidIO

        root = tempfile.mkdtemp(prefix="verif-c10-", dir=scratch_root())
        pio = PyramidIO(root, scheme=self.scheme, default_format=self.default_format)
        procs = self.procs
        fmt = self.fmt

        mine = self.main_updates

        def main():
            ws = []
            for ups in procs:
                w = multiprocessing.Process(target=updater, args=(pio, ups, fmt))
                w.start()
                ws.append(w)
            if mine:
                updater(pio, mine, fmt)
            for w in ws:
                w.join()
            return [w.exitcode for w in ws]

        return main, Monitor(), root

    def cleanup(self, root):
        shutil.rmtree(root, ignore_errors=True)

    def at_terminal(self, sched, mon):
        from toasty.pyramid import PyramidIO, Pos

        viol = []
        main = sched.main()
        if main.outcome[0] != "return" or any(c != 0 for c in main.outcome[1]):
            bad = [p.outcome for p in sched.procs if p.outcome and p.outcome[0] == "raise"]
            viol.append(("updater-failed", "outcome %r; failures %r" % (main.outcome, bad[:2])))
            return viol, ("failed",)
        if self._serial is None:
            self._serial = serial_results(self._all())
        pio = PyramidIO(sched.root, scheme=self.scheme, default_format=self.default_format)
        tiles = {}
        positions = sorted(set(tuple(u[0]) for ups in self._all() for u in ups))
        for pos in positions:
            img = pio.read_image(Pos(*pos), format=self.fmt or self.default_format)
            tiles[pos] = None if img is None else img.asarray()
        match = False
        for cand in self._serial:
            ok = True
            for pos in positions:
                want = cand.get(pos)
                got = tiles[pos]
                if got is None or want is None:
                    ok = ok and (got is None and (want is None or np.all(np.isnan(want))))
                else:
                    ok = ok and np.array_equal(got, want, equal_nan=True)
            if ok:
                match = True
                break
        if not match:
            # which contributions are missing?
            missing = []
            for ups in self._all():
                for pos, (y0, y1, x0, x1), value in ups:
                    if value is None or value in ("abort", "abort-write"):
                        continue
                    if isinstance(value, str):
                        value = float(value.split(":")[1])
                    got = tiles[tuple(pos)]
                    if got is None or not np.any(got[y0:y1, x0:x1] == value):
                        missing.append((pos, value))
            viol.append(("lost-update", "final tiles equal no serial order of the updates; contributions entirely missing: %r" % (missing,)))
        locks = [f for f in stages._walk_files(sched.root) if f.endswith(".lock")]
        if locks or sched.locks:
            viol.append(("lock-files-remain", "lock files left: %r %r" % (locks, sorted(sched.locks))))
        obs = ("ok" if match else "lost",)
        return viol, obs


R = {
    "left": (0, 256, 0, 100),
    "right": (0, 256, 150, 256),
    "mid": (50, 200, 80, 180),
    "top": (0, 60, 0, 256),
    "px": (10, 11, 10, 11),
}


def configs(tier):
    T0 = (0, 0, 0)
    T1 = (1, 1, 0)
    cfgs = [
        UpdateHarness("2-disjoint", [[(T0, R["left"], 1.0)], [(T0, R["right"], 2.0)]]),
        UpdateHarness("2-overlap", [[(T0, R["left"], 1.0)], [(T0, R["mid"], 2.0)]]),
        UpdateHarness("2-disjoint-LXY-fits", [[(T1, R["left"], 1.0)], [(T1, R["right"], 2.0)]], scheme="LXY", default_format="fits"),
        UpdateHarness("2-explicit-format", [[(T0, R["left"], 1.0)], [(T0, R["top"], 2.0)]], default_format="fits", fmt="npy"),
        UpdateHarness("3-two-tiles", [[(T0, R["left"], 1.0)], [(T0, R["right"], 2.0)], [(T1, R["mid"], 3.0)]]),
    ]
    FULL = (0, 256, 0, 256)
    T2 = (1, 0, 1)
    cfgs += [
        # one contribution defines nothing (fresh tile), the other defines pixels
        UpdateHarness("2-one-undefined", [[(T0, R["left"], None)], [(T0, R["right"], 2.0)]]),
        # two sampling runs in update mode on one tile: one covers it fully, one partly
        UpdateHarness("2-samplers-full-and-part", [[(T2, FULL, "sampler:2.0")], [(T2, R["left"], "sampler:1.0")]]),
        UpdateHarness("sampler-vs-updater", [[(T2, R["mid"], "sampler:3.0")], [(T2, R["top"], 4.0)]]),
    ]
    cfgs += [
        UpdateHarness("3-one-tile", [[(T0, R["left"], 1.0)], [(T0, R["right"], 2.0)], [(T0, R["top"], 3.0)]]),
        UpdateHarness("2x2-sequential", [[(T0, R["left"], 1.0), (T0, R["px"], 5.0)], [(T0, R["right"], 2.0), (T0, R["mid"], 6.0)]]),
    ]
    # an update given up half-way (its body raises) next to successful ones, on a tile that does not exist yet and on
    # one that does: the others' contributions stay
    cfgs += [
        UpdateHarness("2-one-aborts", [[(T0, R["left"], 1.0)], [(T0, R["right"], "abort")]]),
        UpdateHarness("3-one-aborts", [[(T0, R["left"], 1.0)], [(T0, R["mid"], "abort")], [(T0, R["top"], 3.0)]]),
        UpdateHarness("2-one-read-estale", [[(T0, R["left"], 1.0)], [(T0, R["right"], "estale:2.0")]]),
        UpdateHarness("3-one-read-estale", [[(T1, R["left"], 1.0)], [(T1, R["mid"], "estale:2.0")], [(T1, R["top"], 3.0)]], default_format="fits"),
        UpdateHarness("3-one-write-fails", [[(T0, R["left"], 1.0)], [(T0, R["mid"], "abort-write")], [(T0, R["top"], 3.0)]]),
        UpdateHarness("2-abort-then-update", [[(T1, R["left"], "abort"), (T1, R["px"], 5.0)], [(T1, R["right"], 2.0)]], default_format="fits"),
    ]
    # the top-level process updates the tile itself while its children do (every updater, whatever its role, must
    # use one lock discipline)
    cfgs.append(UpdateHarness("parent-and-children", [[(T0, R["left"], 1.0)], [(T0, R["right"], 2.0)]], main_updates=[(T0, R["top"], 3.0)]))
    # deeper tiles whose position digits run together to the same string ("4112"): an updater that touched
    # the partner tile earlier and one that did not must still exclude each other on the shared tile
    TA, TB = (4, 1, 12), (4, 11, 2)
    cfgs += [
        UpdateHarness("digit-collision", [[(TA, R["px"], 5.0), (TB, R["left"], 1.0)], [(TB, R["right"], 2.0)]]),
        UpdateHarness("digit-collision-LXY", [[(TB, R["px"], 5.0), (TA, R["left"], 1.0)], [(TA, R["mid"], 2.0)]], scheme="LXY"),
    ]
    # the real parallel multi-TAN tiling of two images sharing tiles: its workers are the updaters, and the
    # parent's lock-file clean-up must not run while they still hold locks
    cfgs.append(stages.MultiTan(nimg=2, W=2))
    if tier == "thorough":
        cfgs.append(stages.MultiWcs(nimg=2, W=2))
        cfgs += [
            UpdateHarness("digit-collision-3", [[((5, 1, 23), R["px"], 5.0), ((5, 12, 3), R["left"], 1.0)], [((5, 12, 3), R["right"], 2.0)], [((5, 12, 3), R["top"], 3.0)]]),
            UpdateHarness("3x2-one-tile", [[(T0, R["left"], 1.0), (T0, R["px"], 4.0)], [(T0, R["right"], 2.0), (T0, R["mid"], 5.0)], [(T0, R["top"], 3.0)]]),
            UpdateHarness("2x2-two-tiles", [[(T0, R["left"], 1.0), (T1, R["px"], 5.0)], [(T1, R["right"], 2.0), (T0, R["mid"], 6.0)]]),
        ]
    return cfgs


def _work(cfg):
    return stages.explore_to_part(cfg, PROP)


def _real_updater(args):
    root, k, n = args
    from toasty.pyramid import PyramidIO

    pio = PyramidIO(root, default_format="npy")
    ups = [((0, 0, 0), (k, k + 1, j, j + 1), float(100 * k + j + 1)) for j in range(n)]
    updater(pio, ups, None)
    return 0


def real_process_binding(part, nproc=4, n=20):
    """Free-running sanity run with real processes and the real SoftFileLock: binds the
    existence-lock model to reality (not a deciding step)."""
    from toasty.pyramid import PyramidIO, Pos

    with scratch("c10real") as root:
        ctx = multiprocessing.get_context("fork")
        ps = [ctx.Process(target=_real_updater, args=((root, k, n),)) for k in range(nproc)]
        for p in ps:
            p.start()
        for p in ps:
            p.join()
        part.case(nontrivial=True)
        part.count("real_process_updates", nproc * n)
        if any(p.exitcode != 0 for p in ps):
            part.violation("real-processes/updater-failed", "exit codes %r" % [p.exitcode for p in ps])
            return
        arr = PyramidIO(root, default_format="npy").read_image(Pos(0, 0, 0)).asarray()
        missing = [(k, j) for k in range(nproc) for j in range(n) if arr[k, j] != float(100 * k + j + 1)]
        if missing:
            part.violation("real-processes/lost-update", "%d of %d contributions missing with real processes, e.g. %r" % (len(missing), nproc * n, missing[:3]))
        locks = [f for f in stages._walk_files(root) if f.endswith(".lock")]
        if locks:
            part.violation("real-processes/lock-files-remain", repr(locks))


_LOCKID_CHILD = r"""
import json, os, sys, tempfile
sys.path.insert(0, %(verif)r)
from vt import build
build.activate_repo()
import filelock
used = []

class Rec(object):
    def __init__(self, lock_file, *a, **k):
        self.lock_file = str(lock_file)
    def acquire(self, *a, **k):
        used.append(self.lock_file)
        return self
    def release(self, *a, **k):
        pass
    def __enter__(self):
        return self.acquire()
    def __exit__(self, *e):
        return False

filelock.SoftFileLock = Rec
filelock.FileLock = Rec
import numpy as np
from toasty.image import Image, ImageMode
from toasty.pyramid import PyramidIO, Pos
root = os.environ["VERIF_LOCKID_ROOT"]  # the same directory for every child, possibly reached through a symlink
out = {}
for scheme in ("L/Y/YX", "LXY"):
    pio = PyramidIO(os.path.join(root, scheme.replace("/", "")), scheme=scheme, default_format="npy")
    for pos in ((0, 0, 0), (2, 1, 3), (4, 11, 2), (4, 1, 12)):
        del used[:]
        with pio.update_image(Pos(*pos), masked_mode=ImageMode.F32, default="masked") as img:
            pass
        out["%%s %%r" %% (scheme, pos)] = [os.path.relpath(os.path.realpath(u), os.path.realpath(root)) for u in used]
print("VERIF-LOCKID " + json.dumps(out, sort_keys=True))
"""


def lock_identity(part):
    """Updaters of one tile need not be relatives: two independently started interpreters (different string-hash
    salts, different pids) must arrive at the same lock for the same tile, and at different locks for different
    tiles.  Each child runs one update per tile with the lock classes replaced by a recorder."""
    import json
    import subprocess
    import sys

    from vt.fixtures import scratch_root

    verif = os.path.dirname(os.path.dirname(os.path.abspath(__file__)))
    import shutil
    import tempfile

    code = _LOCKID_CHILD % {"verif": verif, "scratch": scratch_root()}
    seen = {}
    base = tempfile.mkdtemp(prefix="verif-lockid-", dir=scratch_root())
    real = os.path.join(base, "pyramid")
    os.makedirs(real)
    os.symlink(real, os.path.join(base, "link"))
    # three unrelated interpreters: different string-hash salts, different temporary directories, and one of them
    # reaching the pyramid through a symbolic link
    variants = {"1": (real, "tmp-a"), "2": (os.path.join(base, "link"), "tmp-b"), "31337": (real, "tmp-c")}
    for hs in ("1", "2", "31337"):
        env = dict(os.environ)
        env["PYTHONHASHSEED"] = hs
        env["VERIF_LOCKID_ROOT"] = variants[hs][0]
        env["TMPDIR"] = os.path.join(base, variants[hs][1])
        os.makedirs(env["TMPDIR"], exist_ok=True)
        p = subprocess.run([sys.executable, "-W", "ignore", "-c", code], cwd=verif, env=env, stdout=subprocess.PIPE, stderr=subprocess.PIPE, text=True, timeout=600)
        line = [l for l in p.stdout.splitlines() if l.startswith("VERIF-LOCKID ")]
        part.case(nontrivial=True)
        if p.returncode != 0 or not line:
            part.notes.append("lock-identity child (PYTHONHASHSEED=%s) failed: %s" % (hs, (p.stderr or p.stdout)[-400:]))
            part.counters["driver_crashes"] = part.counters.get("driver_crashes", 0) + 1
            shutil.rmtree(base, ignore_errors=True)
            return
        seen[hs] = json.loads(line[-1][len("VERIF-LOCKID "):])
    shutil.rmtree(base, ignore_errors=True)
    ref = seen["1"]
    cfg = {"lock_identity": True}
    for hs, d in seen.items():
        if d != ref:
            diff = [k for k in ref if d.get(k) != ref[k]]
            part.violation("lock-identity/differs-between-interpreters", "%r: an unrelated interpreter (PYTHONHASHSEED=%s, its own TMPDIR, pyramid possibly reached through a symlink) locks %r for tile %s, another one locks %r" % (cfg, hs, d.get(diff[0]), diff[0], ref[diff[0]]), cfg)
            return
    for scheme in ("L/Y/YX", "LXY"):
        ks = [k for k in ref if k.startswith(scheme + " ")]
        locks = [tuple(ref[k]) for k in ks]
        if any(len(l) != 1 for l in locks):
            part.violation("lock-identity/not-exactly-one-lock-per-update", "%r: locks taken per update: %r" % (cfg, dict((k, ref[k]) for k in ks)), cfg)
        elif len(set(locks)) != len(locks):
            part.violation("lock-identity/tiles-share-a-lock-file", "%r: different tiles map to one lock file: %r" % (cfg, dict((k, ref[k]) for k in ks)), cfg)


def run(tier, seed):
    rep = Report(PROP, tier, seed, "model_checking")
    rep.rule = (
        "stateful exhaustive exploration of every interleaving of lock-acquire / read / write-begin / write-end / release "
        "steps of N virtual processes running the real update_image blocks; states = distinct canonical states"
    )
    rep.assumptions = stages.ASSUMPTIONS + [
        "SoftFileLock is modelled as an existence lock (O_CREAT|O_EXCL / unlink); what is verified is toasty's use of the lock, not filelock",
        "a tile write is not atomic: any read or second write between write-begin and write-end of a path is flagged",
    ]
    cfgs = configs(tier)
    for c in cfgs:
        c.seed = seed
    par.pmap(_work, cfgs, rep)
    real_process_binding(rep, nproc=4, n=10 if tier == "quick" else 40)
    lock_identity(rep)
    stages.finish_model_report(rep)
    return rep.finish()


stages.HARNESSES["UpdateHarness"] = UpdateHarness


def replay(payload):
    r = payload["replay"]
    if r.get("lock_identity"):
        from vt.harness import Part

        p = Part()
        lock_identity(p)
        for sig in p.violations:
            print("REPLAY-FAIL", sig)
        return 1 if p.violations else 0
    c = r["config"]
    procs = [[(tuple(u[0]), tuple(u[1]), u[2]) for u in ups] for ups in c["procs"]]
    mu = c.get("main_updates")
    if mu:
        mu = [(tuple(u[0]), tuple(u[1]), u[2]) for u in mu]
    cfg = UpdateHarness(c["name"], procs, c["scheme"], c["default_format"], c["fmt"], main_updates=mu)
    ex = run_labels(cfg, r["schedule"])
    try:
        viol = ex.step_violations()
        if ex.main_finished():
            vs, _ = cfg.at_terminal(ex.sched, ex.monitor)
            viol += vs
    finally:
        ex.close()
    for sig, detail in viol:
        print("REPLAY-FAIL %s: %s" % (sig, detail))
    return 1 if viol else 0
