"""C14 -- FITS pyramids carry the leaves' true data range up to the root and the WTML.

The C02 machinery restricted to FITS/F32-F64 tiles written by toasty itself, with the data
range oracle switched on: every tile's DATAMIN/DATAMAX must equal the min/max over the
finite leaf pixels beneath it (leaf value ranges are disjoint per leaf, so 'range of the
averaged tile', 'min of maxima' or 'first child only' all give different numbers); then
Builder.cascade() + write_index_rel_wtml(): ImageSet and WTML carry the root's range.
Serial for all populations, parallel (all interleavings) for depth 1 and filtered depth 2.
"""
import os
import shutil

import numpy as np

from vt import par, stages
from vt.fixtures import scratch, quiet, rng_order
from vt.harness import Part, Report
from checks import c02

PROP = "C14"


def builder_case(d, start, pop, part, all_nan_leaf=None, nan_file=False):
    """Builder.cascade + WTML: data range of the image set = range over the leaves.  Then a history on
    the same Builder: a leaf is replaced so that the range widens, cascade, WTML; then replaced so that
    it narrows again, cascade, WTML.  With nan_file the all-NaN leaf is a FITS file saved through
    Image.save (PyramidIO does not store all-undefined tiles) right after a tile of ANOTHER pyramid with
    a far wider range was written by this process."""
    from toasty.builder import Builder
    from toasty.pyramid import PyramidIO, Pos
    from toasty.image import Image
    from wwt_data_formats.folder import Folder
    from wwt_data_formats.place import Place

    kind = "fits-F32"
    cfg = {"start": start, "population": list(pop), "builder": True, "all_nan_leaf": all_nan_leaf, "nan_leaf_as_file": bool(nan_file)}
    part.case(nontrivial=True)
    phase = ["first-cascade"]

    def bad(clause, detail):
        c = dict(cfg, phase=phase[0])
        sig = clause if phase[0] == "first-cascade" else "%s/%s" % (clause, phase[0])
        part.violation("%s/%s" % (sig, kind), "%r: %s" % (c, detail), c)

    root = os.path.join(d, "b")
    shutil.rmtree(root, ignore_errors=True)
    pio = PyramidIO(root, default_format="fits")
    side = 2**start
    positions = c02.population_positions(pop, start)
    leaves = {pos: c02.leaf(pos[2] * side + pos[1], kind) for pos in positions}
    nanpos = None
    if all_nan_leaf is not None:
        nanpos = c02.population_positions((all_nan_leaf,), start)[0]
        leaves[nanpos] = np.full((256, 256), np.nan, dtype="f4")

    def verify(b, stored):
        fin = np.concatenate([a[np.isfinite(a)] for a in stored.values()])
        lo, hi = np.float32(fin.min()), np.float32(fin.max())
        if not (np.isclose(b.imgset.data_min, lo, rtol=2e-7) and np.isclose(b.imgset.data_max, hi, rtol=2e-7)):
            bad("range/imageset", "Builder.imgset data_min/max = %r/%r, leaves span %r/%r" % (b.imgset.data_min, b.imgset.data_max, float(lo), float(hi)))
        f = Folder.from_file(os.path.join(root, "index_rel.wtml"))
        ch = f.children[0]
        iset = ch.foreground_image_set if isinstance(ch, Place) else ch
        if not (np.isclose(iset.data_min, lo, rtol=2e-7) and np.isclose(iset.data_max, hi, rtol=2e-7)):
            bad("range/wtml", "index_rel.wtml DataMin/DataMax = %r/%r, leaves span %r/%r" % (iset.data_min, iset.data_max, float(lo), float(hi)))
        got = c02.read_tree(root, "fits")
        want = c02.expected_tree(stored, start, kind)
        c02.compare_trees(got, want, start, kind, bad, True, stored)

    try:
        with quiet():
            c02.write_leaves(pio, {p: a for p, a in leaves.items() if not (nan_file and p == nanpos)}, "fits")
            if nan_file and nanpos is not None:
                fpio = PyramidIO(os.path.join(d, "foreign"), default_format="fits")
                fpio.write_image(Pos(1, 0, 1), Image.from_array(np.linspace(-7e4, 9e4, 65536).reshape(256, 256).astype("f4")))
                Image.from_array(leaves[nanpos].copy()).save(pio.tile_path(Pos(*nanpos)), format="fits")
            b = Builder(pio)
            b.imgset.tile_levels = start
            b.cascade(parallel=1)
            b.write_index_rel_wtml()
    except Exception as e:
        bad("builder-raises:%s" % type(e).__name__, repr(e))
        return
    stored = {p: a for p, a in leaves.items() if not np.all(np.isnan(a))}
    if nanpos is not None and not nan_file:
        if os.path.exists(pio.tile_path(Pos(*nanpos), makedirs=False)):
            bad("all-nan-leaf-stored", "an all-NaN leaf was stored at %r" % (nanpos,))
    verify(b, stored)
    # the same Builder again, after the base layer changed
    first = sorted(stored)[0]
    for ph, arr in (("recascade-wider", (stored[first] * 40.0 - 9000.0).astype("f4")), ("recascade-narrower", (stored[first] * 0.0 + np.float32(np.nanmean(stored[sorted(stored)[-1]]))).astype("f4"))):
        phase[0] = ph
        stored = dict(stored)
        stored[first] = arr
        part.case(nontrivial=True)
        try:
            with quiet():
                c02.write_leaves(pio, {first: arr}, "fits")
                b.cascade(parallel=1)
                b.write_index_rel_wtml()
        except Exception as e:
            bad("builder-raises:%s" % type(e).__name__, repr(e))
            return
        verify(b, stored)
    # a leaf appears at a position that was EMPTY during the earlier cascades, written through another PyramidIO on
    # the same directory (as a worker process or a second tool would); the same Builder cascades again
    free = [p for p in c02.population_positions(tuple(range(4**start)), start) if p not in leaves]
    if free:
        phase[0] = "recascade-new-leaf-written-elsewhere"
        newpos = free[0]
        arr = (np.linspace(-12345.0, 67890.0, 65536).reshape(256, 256)).astype("f4")
        stored = dict(stored)
        stored[newpos] = arr
        part.case(nontrivial=True)
        try:
            with quiet():
                c02.write_leaves(PyramidIO(root, default_format="fits"), {newpos: arr}, "fits")
                b.cascade(parallel=1)
                b.write_index_rel_wtml()
        except Exception as e:
            bad("builder-raises:%s" % type(e).__name__, repr(e))
            return
        verify(b, stored)


def mixed_precision_case(d, part):
    """A pyramid whose leaves were written from a float64 and from float32 inputs (the first tile the cascade
    reads is a float64 one, so that every child fits the working buffer): the float32 leaves hold the minima,
    and every tile's range must still be the range of all leaf data beneath it."""
    from toasty.builder import Builder
    from toasty.image import Image
    from toasty.pyramid import PyramidIO, Pos

    cfg = {"mixed_precision": True, "start": 2}
    part.case(nontrivial=True)

    def bad(clause, detail):
        part.violation("%s/fits-mixed-precision" % clause, "%r: %s" % (cfg, detail), cfg)

    root = os.path.join(d, "mx")
    shutil.rmtree(root, ignore_errors=True)
    pio = PyramidIO(root, default_format="fits")
    leaves = {}
    for tid in range(16):
        x, y = tid % 4, tid // 4
        wide = (x % 2 == 0 and y % 2 == 0)  # the top-left child of every level-1 tile: read first
        a = np.linspace(10.0 + tid, 20.0 + tid, 65536).reshape(256, 256)
        if not wide:
            a = a - 500.0 - 3.0 * tid  # the float32 leaves carry the minima
        a[5 + tid, 7:90] = np.nan
        leaves[(2, x, y)] = a.astype("f8" if wide else "f4")
    try:
        with quiet():
            for pos, a in leaves.items():
                pio.write_image(Pos(*pos), Image.from_array(a[::-1].copy()))
            b = Builder(pio)
            b.imgset.tile_levels = 2
            b.cascade(parallel=1)
            b.write_index_rel_wtml()
    except Exception as e:
        bad("raises:%s" % type(e).__name__, repr(e))
        return
    tree = c02.read_tree(root, "fits")
    for pos, (arr, hdr) in sorted(tree.items()):
        vals = [a[np.isfinite(a)] for p, a in leaves.items() if (p[1] >> (2 - pos[0]), p[2] >> (2 - pos[0])) == (pos[1], pos[2])]
        lo, hi = min(float(v.min()) for v in vals), max(float(v.max()) for v in vals)
        if not hdr or "DATAMIN" not in hdr or "DATAMAX" not in hdr:
            bad("range/header-missing", "tile %r has no DATAMIN/DATAMAX" % (pos,))
            return
        if not (np.isclose(hdr["DATAMIN"], lo, rtol=2e-7) and np.isclose(hdr["DATAMAX"], hi, rtol=2e-7)):
            bad("range/differs-from-leaf-range/%s" % ("leaf" if pos[0] == 2 else ("root" if pos[0] == 0 else "inner")), "tile %r records %r/%r, the leaves beneath it span %r/%r" % (pos, hdr["DATAMIN"], hdr["DATAMAX"], lo, hi))
            return
    allv = np.concatenate([a[np.isfinite(a)] for a in leaves.values()])
    if not (np.isclose(b.imgset.data_min, allv.min(), rtol=2e-7) and np.isclose(b.imgset.data_max, allv.max(), rtol=2e-7)):
        bad("range/imageset", "Builder.imgset data_min/max = %r/%r, leaves span %r/%r" % (b.imgset.data_min, b.imgset.data_max, float(allv.min()), float(allv.max())))


def integer_case(d, part, dt):
    """Leaves holding integer pixels (detector counts: int16 / int32 / uint8), sparse, never zero; FITS writes their
    range as integer-valued cards.  Every tile's range is the range of the leaf data beneath it all the same."""
    from toasty.builder import Builder
    from toasty.image import Image
    from toasty.pyramid import PyramidIO, Pos
    from wwt_data_formats.folder import Folder
    from wwt_data_formats.place import Place

    cfg = {"integer_leaves": dt, "start": 2}
    part.case(nontrivial=True)

    def bad(clause, detail):
        part.violation("%s/fits-integer-%s" % (clause, dt), "%r: %s" % (cfg, detail), cfg)

    root = os.path.join(d, "int_" + dt)
    shutil.rmtree(root, ignore_errors=True)
    pio = PyramidIO(root, default_format="fits")
    leaves = {}
    yy, xx = np.mgrid[0:256, 0:256]
    for tid in (0, 1, 5, 6, 11, 12):
        x, y = tid % 4, tid // 4
        if dt == "u1":
            a = ((yy + xx) % 40 + 60 + tid).astype(dt)
            a[3, 3] = 250 - tid
            a[200, 17] = 1 + tid
        else:
            a = ((yy * 3 + xx) % 100 + 1 + 10 * tid).astype(dt)
            a[3, 3] = 3000 + 7 * tid  # outliers an average flattens
            a[200, 17] = -31000 + 11 * tid
        leaves[(2, x, y)] = a
    try:
        with quiet():
            for pos, a in leaves.items():
                pio.write_image(Pos(*pos), Image.from_array(a[::-1].copy()))
            b = Builder(pio)
            b.imgset.tile_levels = 2
            b.cascade(parallel=1)
            b.write_index_rel_wtml()
    except Exception as e:
        bad("raises:%s" % type(e).__name__, repr(e))
        return
    tree = c02.read_tree(root, "fits")
    for pos, (arr, hdr) in sorted(tree.items()):
        vals = [a for p, a in leaves.items() if (p[1] >> (2 - pos[0]), p[2] >> (2 - pos[0])) == (pos[1], pos[2])]
        lo, hi = min(float(v.min()) for v in vals), max(float(v.max()) for v in vals)
        if not hdr or "DATAMIN" not in hdr or "DATAMAX" not in hdr:
            bad("range/header-missing", "tile %r has no DATAMIN/DATAMAX" % (pos,))
            return
        if not (np.isclose(hdr["DATAMIN"], lo, rtol=2e-7) and np.isclose(hdr["DATAMAX"], hi, rtol=2e-7)):
            bad("range/differs-from-leaf-range/%s" % ("leaf" if pos[0] == 2 else ("root" if pos[0] == 0 else "inner")), "tile %r records %r/%r, the leaves beneath it span %r/%r" % (pos, hdr["DATAMIN"], hdr["DATAMAX"], lo, hi))
            return
    lo = min(float(a.min()) for a in leaves.values())
    hi = max(float(a.max()) for a in leaves.values())
    if not (np.isclose(b.imgset.data_min, lo, rtol=2e-7) and np.isclose(b.imgset.data_max, hi, rtol=2e-7)):
        bad("range/imageset", "Builder.imgset data_min/max = %r/%r, leaves span %r/%r" % (b.imgset.data_min, b.imgset.data_max, lo, hi))
    f = Folder.from_file(os.path.join(root, "index_rel.wtml"))
    ch = f.children[0]
    iset = ch.foreground_image_set if isinstance(ch, Place) else ch
    if not (np.isclose(iset.data_min, lo, rtol=2e-7) and np.isclose(iset.data_max, hi, rtol=2e-7)):
        bad("range/wtml", "index_rel.wtml DataMin/DataMax = %r/%r, leaves span %r/%r" % (iset.data_min, iset.data_max, lo, hi))


def updated_leaves_case(d, part, parallel_cascade=1):
    """Leaves written through update_image in two passes (as multi-TAN tiling and non-clobbering
    TOAST sampling do), the second pass widening the data range; then cascade."""
    from toasty.image import Image, ImageMode
    from toasty.merge import cascade_images, averaging_merger
    from toasty.pyramid import PyramidIO, Pos

    kind = "fits-F32"
    cfg = {"updated_leaves": True, "start": 1}
    part.case(nontrivial=True)

    def bad(clause, detail):
        part.violation("%s/%s" % (clause, kind), "%r: %s" % (cfg, detail), cfg)

    root = os.path.join(d, "u")
    shutil.rmtree(root, ignore_errors=True)
    pio = PyramidIO(root, default_format="fits")
    final = {}
    try:
        with quiet():
            for k, pos in enumerate([(1, 0, 0), (1, 1, 0), (1, 1, 1)]):
                disp = np.full((256, 256), np.nan, dtype="f4")
                passes = [((0, 128), 1.0 + k, 2.0 + k), ((100, 256), -5.0 - k, 10.0 + k)]
                for (r0, r1), lo, hi in passes:
                    src = np.linspace(lo, hi, (r1 - r0) * 256).reshape(r1 - r0, 256).astype("f4")
                    disp[r0:r1] = src
                    stored_rows = slice(256 - r1, 256 - r0)  # FITS tiles are stored bottom-up
                    with pio.update_image(Pos(*pos), masked_mode=ImageMode.F32, default="masked") as basis:
                        Image.from_array(src[::-1].copy()).update_into_maskable_buffer(basis, slice(None), slice(None), stored_rows, slice(None))
                final[pos] = disp
            cascade_images(pio, 1, averaging_merger, parallel=parallel_cascade)
    except Exception as e:
        bad("updated-leaves-raises:%s" % type(e).__name__, repr(e))
        return
    got = c02.read_tree(root, "fits")
    want = c02.expected_tree(final, 1, kind)
    c02.compare_trees(got, want, 1, kind, bad, True, final)


def retile_same_means_case(d, part, parallel_cascade=1):
    """Cascade; then one leaf is written again with two pixels of one 2x2 block moved apart by equal amounts (every
    block mean, hence every parent pixel, stays exactly what it was, while the leaf's range widens far beyond the old
    one); cascade again: the ranges recorded above that leaf follow."""
    from toasty.merge import cascade_images, averaging_merger
    from toasty.pyramid import PyramidIO

    kind = "fits-F32"
    cfg = {"retile_same_means": True, "start": 2, "parallel": parallel_cascade}
    part.case(nontrivial=True)

    def bad(clause, detail):
        part.violation("%s/after-retile-with-unchanged-means/%s" % (clause, kind), "%r: %s" % (cfg, detail), cfg)

    root = os.path.join(d, "rs")
    shutil.rmtree(root, ignore_errors=True)
    pio = PyramidIO(root, default_format="fits")
    yy, xx = np.mgrid[0:256, 0:256]
    leaves = {}
    for y in range(4):
        for x in range(4):
            if (x + y) % 3 != 2:
                a = ((yy * 7 + xx * 3) % 1000 + 1000.0 * (y * 4 + x)).astype("f4")  # integers: sums and means exact
                a[40:44, 100:140] = np.nan
                leaves[(2, x, y)] = a
    try:
        with quiet():
            c02.write_leaves(pio, leaves, "fits")
            cascade_images(pio, 2, averaging_merger, parallel=parallel_cascade)
            b = leaves[(2, 3, 1)].copy()
            b[10, 10] += 1.0e6
            b[10, 11] -= 1.0e6
            b[200, 30] -= 3.0e6
            b[201, 30] += 3.0e6
            leaves[(2, 3, 1)] = b
            c02.write_leaves(pio, {(2, 3, 1): b}, "fits")
            cascade_images(pio, 2, averaging_merger, parallel=parallel_cascade)
    except Exception as e:
        bad("raises:%s" % type(e).__name__, repr(e))
        return
    got = c02.read_tree(root, "fits")
    want = c02.expected_tree(leaves, 2, kind)
    c02.compare_trees(got, want, 2, kind, bad, True, leaves)


def piecewise_case(d, part, parallel=1):
    """The pyramid cascaded in pieces: each level-1 sub-pyramid on its own (Pyramid.subpyramid + walk with the
    merger's callback), then the top.  The tree, headers included, is that of one cascade."""
    from toasty.merge import cascade_images, averaging_merger, TileMerger
    from toasty.pyramid import PyramidIO, Pyramid, Pos

    kind = "fits-F32"
    cfg = {"piecewise": True, "start": 3, "parallel": parallel}
    part.case(nontrivial=True)

    def bad(clause, detail):
        part.violation("%s/piecewise-cascade/%s" % (clause, kind), "%r: %s" % (cfg, detail), cfg)

    root = os.path.join(d, "pw")
    shutil.rmtree(root, ignore_errors=True)
    pio = PyramidIO(root, default_format="fits")
    leaves = {}
    for y in range(8):
        for x in range(8):
            if (3 * x + y) % 5 != 0:
                leaves[(3, x, y)] = c02.leaf(y * 8 + x, kind)
    try:
        with quiet():
            c02.write_leaves(pio, leaves, "fits")
            for apex in ((1, 1, 0), (1, 0, 1), (1, 0, 0), (1, 1, 1)):
                pyr = Pyramid.new_generic(3)
                pyr.subpyramid(Pos(*apex))
                pyr.walk(TileMerger(pio, averaging_merger).walk_callback, parallel=parallel)
            cascade_images(pio, 1, averaging_merger, parallel=parallel)
    except Exception as e:
        bad("raises:%s" % type(e).__name__, repr(e))
        return
    got = c02.read_tree(root, "fits")
    want = c02.expected_tree(leaves, 3, kind)
    c02.compare_trees(got, want, 3, kind, bad, True, leaves)


def toast_fits_case(d, part):
    """FITS auto-tiling in TOAST mode of two images in different parts of the sky, the first one
    holding the extremes: the root tile, the returned description and the WTML must carry the range
    of all leaves, and every ancestor of every leaf must exist."""
    import toasty
    from toasty import TilingMethod
    from astropy.io import fits
    from astropy.wcs import WCS

    cfg = {"toast_fits": True}
    part.case(nontrivial=True)

    def bad(clause, detail):
        part.violation("%s/fits-F32" % clause, "%r: %s" % (cfg, detail), cfg)

    paths = []
    for i, (ra, dec, lo, hi) in enumerate([(30.0, 40.0, -500.0, 900.0), (200.0, -30.0, 1.0, 2.0)]):
        w = WCS(naxis=2)
        w.wcs.ctype = ["RA---TAN", "DEC--TAN"]
        w.wcs.crval = [ra, dec]
        w.wcs.cdelt = [-0.25, 0.25]
        w.wcs.crpix = [20.5, 20.5]
        data = np.linspace(lo, hi, 1600).reshape(40, 40).astype("f4")
        p = os.path.join(d, "t%d.fits" % i)
        fits.PrimaryHDU(data, header=w.to_header()).writeto(p, overwrite=True)
        paths.append(p)
    out = os.path.join(d, "toast_out")
    shutil.rmtree(out, ignore_errors=True)
    try:
        with quiet():
            _o, bld = toasty.tile_fits(paths, out_dir=out, tiling_method=TilingMethod.TOAST, start=3, parallel=1)
    except Exception as e:
        bad("toast-fits-raises:%s" % type(e).__name__, repr(e))
        return
    tree = c02.read_tree(out, "fits")
    leaves = {p: t for p, t in tree.items() if p[0] == 3}
    if not leaves:
        bad("toast-fits-no-leaves", "no level-3 tiles were written")
        return
    fin = np.concatenate([t[0][np.isfinite(t[0])] for t in leaves.values()])
    lo, hi = np.float32(fin.min()), np.float32(fin.max())
    root = tree.get((0, 0, 0))
    if root is None or not root[1] or not (np.isclose(root[1].get("DATAMIN", np.nan), lo, rtol=2e-7) and np.isclose(root[1].get("DATAMAX", np.nan), hi, rtol=2e-7)):
        bad("range/differs-from-leaf-range/root", "TOAST FITS tiling: root records %r, the leaves span %r/%r" % (root[1] if root else None, float(lo), float(hi)))
    if not (np.isclose(bld.imgset.data_min, lo, rtol=2e-7) and np.isclose(bld.imgset.data_max, hi, rtol=2e-7)):
        bad("range/imageset", "TOAST FITS tiling: returned data_min/max %r/%r, leaves span %r/%r" % (bld.imgset.data_min, bld.imgset.data_max, float(lo), float(hi)))
    missing = []
    for (n, x, y) in leaves:
        q = (n, x, y)
        while q[0] > 0:
            q = (q[0] - 1, q[1] // 2, q[2] // 2)
            if q not in tree:
                missing.append(q)
    if missing:
        bad("toast-fits-ancestors-missing", "ancestors of populated leaves were not produced: %r" % (sorted(set(missing))[:4],))
    # every tile's range = range of the leaves beneath it
    for pos, (arr, hdr) in sorted(tree.items()):
        vals = [t[0][np.isfinite(t[0])] for p, t in leaves.items() if (p[1] >> (3 - pos[0]), p[2] >> (3 - pos[0])) == (pos[1], pos[2])]
        vals = [v for v in vals if v.size]
        if not vals or not hdr:
            continue
        l2, h2 = np.float32(min(v.min() for v in vals)), np.float32(max(v.max() for v in vals))
        if not (np.isclose(hdr["DATAMIN"], l2, rtol=2e-7) and np.isclose(hdr["DATAMAX"], h2, rtol=2e-7)):
            bad("range/differs-from-leaf-range/inner", "TOAST FITS tiling: tile %r records %r/%r, leaves beneath span %r/%r" % (pos, hdr["DATAMIN"], hdr["DATAMAX"], float(l2), float(h2)))
            break


def _builder_job(job):
    part = Part()
    with scratch("c14") as d:
        for k, (start, pop, nanleaf) in enumerate(job):
            builder_case(d, start, pop, part, nanleaf)
            if nanleaf is not None and k % 2 == 0:
                builder_case(d, start, pop, part, nanleaf, nan_file=True)
        updated_leaves_case(d, part)
        if job and job[0][0] == 1 and len(job[0][1]) == 1:
            retile_same_means_case(d, part)
            piecewise_case(d, part)
            toast_fits_case(d, part)
            mixed_precision_case(d, part)
            for _dt in ("i2", "i4", "u1"):
                integer_case(d, part, _dt)
        part.sample({"builder_cascade": True, "start": job[0][0], "population": list(job[0][1]), "all_nan_leaf": job[0][2]})
    return part


def _job(j):
    if j[0] == "builder":
        return _builder_job(j[1])
    return c02._job(j)


def run(tier, seed):
    rep = Report(PROP, tier, seed, "model_checking")
    kinds = ["fits-F32", "fits-F32z", "fits-F32n", "fits-F32c", "fits-F32s"] + (["fits-F64"] if tier == "thorough" else [])
    rep.rule = (
        "every sparse FITS leaf population of the C02 family (depth 1: all 16 subsets; depth 2: %d populations%s), serial cascade: DATAMIN/DATAMAX of "
        "every tile vs the finite leaf range beneath it, ImageSet and WTML range vs the root; parallel cascade under the virtual scheduler, all "
        "interleavings, headers included in the tree comparison; a leaf re-written with unchanged 2x2 block means and a far wider range, cascaded again; the depth-3 pyramid cascaded in pieces (four sub-pyramid walks, then the top); states = canonical states of the explorations; non-trivial = sparse population"
        % (len(c02.populations(tier, 2)), "; depth-3 chains" if tier == "thorough" else "")
    )
    rep.assumptions = stages.ASSUMPTIONS + ["leaves are written by toasty's own write_image (so their headers carry the array's finite range)", "single-precision rounding tolerance 2e-7 relative"]
    jobs = c02.build_jobs(tier, seed, kinds, True, ["fits-F32"])
    for j in jobs:
        if j[0] == "e1":
            pass
    bj = []
    for start in (1, 2):
        pops = c02.populations(tier, start)
        for k, pop in enumerate(pops):
            if len(pop) >= 1 and (k % 7 == 0 or start == 1):
                free = [i for i in range(4**start) if i not in pop]
                bj.append((start, pop, free[0] if (free and k % 2 == 0) else None))
    n = 12
    jobs += [("builder", bj[i::n]) for i in range(n) if bj[i::n]]
    par.pmap(_job, jobs, rep)
    stages.finish_model_report(rep)
    # signatures produced through the shared machinery carry C02's property id nowhere: nothing to rename
    return rep.finish()


def replay(payload):
    r = payload["replay"]
    if r.get("toast_fits"):
        part = Part()
        with scratch("c14r") as d:
            toast_fits_case(d, part)
        for sig, (detail, _) in part.violations.items():
            print("REPLAY-FAIL", sig, detail[:400])
        return 1 if part.violations else 0
    if r.get("integer_leaves"):
        part = Part()
        with scratch("c14r") as d:
            integer_case(d, part, r["integer_leaves"])
        for sig, (detail, _) in part.violations.items():
            print("REPLAY-FAIL", sig, detail[:400])
        return 1 if part.violations else 0
    if r.get("mixed_precision"):
        part = Part()
        with scratch("c14r") as d:
            mixed_precision_case(d, part)
        for sig, (detail, _) in part.violations.items():
            print("REPLAY-FAIL", sig, detail[:400])
        return 1 if part.violations else 0
    if r.get("retile_same_means") or r.get("piecewise"):
        part = Part()
        with scratch("c14r") as d:
            (retile_same_means_case if r.get("retile_same_means") else piecewise_case)(d, part, r.get("parallel", 1))
        for sig, (detail, _) in part.violations.items():
            print("REPLAY-FAIL", sig, detail[:400])
        return 1 if part.violations else 0
    if r.get("updated_leaves"):
        part = Part()
        with scratch("c14r") as d:
            updated_leaves_case(d, part)
        for sig, (detail, _) in part.violations.items():
            print("REPLAY-FAIL", sig, detail[:400])
        return 1 if part.violations else 0
    if r.get("builder"):
        part = Part()
        with scratch("c14r") as d:
            builder_case(d, r["start"], tuple(r["population"]), part, r.get("all_nan_leaf"), bool(r.get("nan_leaf_as_file")))
        for sig, (detail, _) in part.violations.items():
            print("REPLAY-FAIL", sig, detail[:400])
        return 1 if part.violations else 0
    return c02.replay(payload)
