"""C08 -- study tiling is a lossless, centred partition of the image into 256-pixel tiles.

Bounded-exhaustive: every (width, height) pair to a bound through the tiling geometry
(against the reference model and the partition laws), sub-images on a boundary lattice,
and write/read-back of real images for every mode x lossless format through the WTML URL
template.
"""
import os

import numpy as np

from vt import par
from vt.fixtures import scratch, quiet, rng_order
from vt.harness import Part, Report
from vt.ref import tiling as rt
from vt.ref import wtml

PROP = "C08"


def geometry_case(w, h, part, sub=None):
    """sub = (ix, iy, sw, sh) checks a sub-image placed inside the (w, h) tiling."""
    from toasty.study import StudyTiling

    cfg = {"width": w, "height": h, "sub": sub}

    def bad(clause, detail):
        part.violation("geometry/%s%s" % (clause, "/subimage" if sub else ""), "%r: %s" % (cfg, detail), cfg)

    t = StudyTiling(w, h)
    gx0, gy0 = rt.offsets(w, h)
    # layout through the public interface: number of deepest-level tiles and where image pixel (0, 0) lands
    nt_pub = t.n_deepest_layer_tiles()
    tx0, ty0, sx0, sy0 = (int(v) for v in t.image_to_tile(0, 0))
    got_layout = (nt_pub, tx0 * 256 + sx0, ty0 * 256 + sy0)
    want_layout = (4 ** rt.levels(w, h), gx0, gy0)
    if got_layout != want_layout:
        bad("layout", "(deepest-level tiles, global x/y of image pixel (0,0)) = %r, reference %r" % (got_layout, want_layout))
    iw, ih = w, h
    if sub is not None:
        ix, iy, iw, ih = sub
        parent_before = [tuple(r[0]) + tuple(r[1:]) for r in t.generate_populated_positions()]
        parent = t
        t = t.compute_for_subimage(ix, iy, iw, ih)
        if [tuple(r[0]) + tuple(r[1:]) for r in parent.generate_populated_positions()] != parent_before or parent.count_populated_positions() != len(parent_before):
            bad("sub-tiling-mutates-parent", "computing a sub-image tiling changed the parent tiling")
        gx0, gy0 = gx0 + ix, gy0 + iy
        if t.n_deepest_layer_tiles() != 4 ** rt.levels(w, h):
            bad("sub-levels", "sub-tiling has %d deepest-level tiles" % t.n_deepest_layer_tiles())
    if iw == 0 or ih == 0:
        return
    part.case(nontrivial=(w % 256 != 0 or h % 256 != 0))
    rects = list(t.generate_populated_positions())
    n = t.count_populated_positions()
    if len(rects) != n:
        bad("count", "count_populated_positions=%d, generated %d" % (n, len(rects)))
    area = 0
    seen = set()
    nt = 2 ** rt.levels(w, h)
    boxes = []
    for pos, rw, rh, imx, imy, tx, ty in rects:
        if pos.n != rt.levels(w, h) or not (0 <= pos.x < nt and 0 <= pos.y < nt):
            bad("tile-position", "tile %r outside the %d-level tiling" % (tuple(pos), rt.levels(w, h)))
        if (pos.x, pos.y) in seen:
            bad("tile-twice", "tile %r generated twice" % (tuple(pos),))
        seen.add((pos.x, pos.y))
        if not (1 <= rw <= 256 and 1 <= rh <= 256 and 0 <= tx and tx + rw <= 256 and 0 <= ty and ty + rh <= 256):
            bad("rect-outside-tile", "rect %r" % ((tuple(pos), rw, rh, imx, imy, tx, ty),))
        if not (0 <= imx and imx + rw <= iw and 0 <= imy and imy + rh <= ih):
            bad("rect-outside-image", "rect %r" % ((tuple(pos), rw, rh, imx, imy, tx, ty),))
        # the slot: image pixel (imx, imy) sits at global pixel (gx0+imx, gy0+imy)
        if imx + gx0 != pos.x * 256 + tx or imy + gy0 != pos.y * 256 + ty:
            bad("not-centred", "image pixel (%d,%d) placed at global (%d,%d), reference (%d,%d)" % (imx, imy, pos.x * 256 + tx, pos.y * 256 + ty, imx + gx0, imy + gy0))
        area += rw * rh
        boxes.append((imx, imy, imx + rw, imy + rh))
    if area != iw * ih:
        bad("cover", "rectangles cover %d pixels of %d" % (area, iw * ih))
    # disjointness (with equal total area => exact cover)
    for i in range(len(boxes)):
        a = boxes[i]
        for j in range(i + 1, len(boxes)):
            b = boxes[j]
            if a[0] < b[2] and b[0] < a[2] and a[1] < b[3] and b[1] < a[3]:
                bad("overlap", "rectangles %r and %r overlap" % (a, b))
    # image_to_tile
    pts = [(0, 0), (iw - 1, 0), (0, ih - 1), (iw - 1, ih - 1)]
    if iw * ih <= 4096:
        pts = [(x, y) for y in range(ih) for x in range(iw)]
    for x, y in pts:
        r = tuple(int(v) for v in t.image_to_tile(x, y))
        want = ((x + gx0) // 256, (y + gy0) // 256, (x + gx0) % 256, (y + gy0) % 256)
        if r != want:
            bad("image_to_tile", "image_to_tile(%d,%d) = %r, reference %r" % (x, y, r, want))
            break


def _geom_rows(job):
    part = Part()
    kind = job[0]
    if kind == "rows":
        _, ws, hs = job
        for w in ws:
            for h in hs:
                geometry_case(w, h, part)
        part.sample({"width": ws[0], "height": hs[len(hs) // 2]})
    elif kind == "sub":
        _, (w, h) = job
        lat = lambda n: sorted(set(v for v in (0, 1, 2, 255, 256, 257, 300, 511, 512, 513, n - 257, n - 256, n - 1, n) if 0 <= v <= n))
        for ix in lat(w):
            for iy in lat(h):
                for sw in lat(w - ix):
                    for sh in lat(h - iy):
                        if sw >= 1 and sh >= 1:
                            geometry_case(w, h, part, sub=(ix, iy, sw, sh))
        part.sample({"parent": (w, h), "sub": "(ix, iy, w, h) on the tile-boundary lattice"})
    return part


# --- read-back ---------------------------------------------------------------------------

MODES = {
    # name: (dtype, channels, format, undefined test)
    "RGBA/png": ("u1", 4, "png"),
    "RGB/png": ("u1", 3, "png"),
    "F32/npy": ("f4", 0, "npy"),
    "F32/fits": ("f4", 0, "fits"),
    "U8/npy": ("u1", 0, "npy"),
    "I16/npy": ("i2", 0, "npy"),
    "F64/npy": ("f8", 0, "npy"),
    "F64/fits": ("f8", 0, "fits"),
    "F16x3/npy": ("f2", 3, "npy"),
    "I32/fits": ("i4", 0, "fits"),
    "I32/npy": ("i4", 0, "npy"),
    "I16/fits": ("i2", 0, "fits"),
    "U8/fits": ("u1", 0, "fits"),
}


def make_image(w, h, mname):
    dt, ch, fmt = MODES[mname]
    yy, xx = np.mgrid[0:h, 0:w]
    base = (yy * 37 + xx * 11 + 1)
    if ch == 0:
        if dt in ("u1",):
            arr = (base % 255 + 1).astype(dt)  # never 0 (= undefined for integer modes)
        elif dt == "i2":
            arr = (base % 30000 + 1).astype(dt)
        elif dt == "i4":
            # spans far beyond the 16-bit range (a narrower buffer would wrap silently)
            arr = ((base.astype(np.int64) * 70001 + 12345) % 2000000000 + 1).astype(dt)
        else:
            arr = (base * 0.25 + 0.5).astype(dt)
            if np.dtype(dt).itemsize >= 4 and w >= 300 and h >= 300:
                # +-inf are defined values: a block of them covering a whole tile's share of the image
                arr[:260, :260] = np.inf
                arr[-40:, -40:] = -np.inf
    elif dt == "u1":
        arr = np.stack([(base * (k + 1)) % 256 for k in range(ch)], axis=-1).astype("u1")
        if ch == 4:
            arr[..., 3] = 255 - (base % 200).astype("u1")  # alpha 56..255: always defined
    else:
        arr = np.stack([(base % 500) * 0.5 + k for k in range(ch)], axis=-1).astype(dt)
    return arr


NARROWER = {"F64/npy": "F32/npy", "F64/fits": "F32/fits", "I32/npy": "I16/npy", "I32/fits": "I16/fits", "I16/npy": "U8/npy", "I16/fits": "U8/fits", "RGBA/png": "RGB/png", "F32/npy": "F16x3/npy"}


def readback_case(d, w, h, mname, scheme, part, sub=None, stale=False, via="direct"):
    """sub = (ix, iy, sw, sh): tile only that sub-image, placed inside the (w, h) tiling.
    stale: the output directory already holds a complete earlier tiling of a fully defined image of the
    same size, and the image tiled now is undefined over all of its share of tile (0, 0)."""
    from toasty.image import Image, ImageLoader
    from toasty.pyramid import PyramidIO
    from toasty.builder import Builder
    from toasty.study import tile_study_image, StudyTiling

    dt, ch, fmt = MODES[mname]
    cfg = {"width": w, "height": h, "mode": mname, "scheme": scheme, "sub": sub}
    if stale:
        cfg["over_existing_tiling"] = True
    if via != "direct":
        # "builder": through Builder.prepare/execute_study_tiling; "reuse": the SAME tiling object has tiled an
        # image of a narrower mode of the same size (into another directory) before
        cfg["via"] = via
    part.case(nontrivial=True)

    def bad(clause, detail):
        part.violation("readback/%s%s%s/%s" % (clause, "/over-existing-tiling" if stale else "", "" if via == "direct" else "/via-" + via, mname), "%r: %s" % (cfg, detail), cfg)

    arr = make_image(w, h, mname)
    # "label:<format>": the image object carries another default format than the pyramid it is tiled into (an
    # image read from a FITS file tiled into a npy pyramid and so on); the pyramid's format decides what is written
    img_fmt = via[6:] if via.startswith("label:") else fmt
    out = os.path.join(d, "rb_%d_%d_%s_%s" % (w, h, mname.replace("/", "_"), scheme.replace("/", "")))
    pio = PyramidIO(out, scheme=scheme, default_format=fmt)
    try:
        with quiet():
            if stale:
                first = make_image(w, h, mname)
                if dt[0] == "f":
                    first = np.where(np.isfinite(first), first, 3.0).astype(first.dtype)
                tile_study_image(Image.from_array(first[::-1].copy(), default_format=fmt), pio)
                gx0, gy0 = rt.offsets(w, h)
                if dt[0] == "f":
                    arr[: max(0, 256 - gy0), : max(0, 256 - gx0)] = np.nan
                else:
                    arr[: max(0, 256 - gy0), : max(0, 256 - gx0)] = 0
            if sub is None:
                img = Image.from_array(arr.copy(), default_format=img_fmt)
                if via == "reuse" and mname in NARROWER:
                    n_dt, n_ch, n_fmt = MODES[NARROWER[mname]]
                    tiling = StudyTiling(w, h)
                    first = make_image(w, h, NARROWER[mname])
                    tiling.tile_image(Image.from_array(first, default_format=n_fmt), PyramidIO(out + "_first", scheme=scheme, default_format=n_fmt))
                    tiling.tile_image(img, pio)
                elif via == "thumbnail-first":
                    # the order the tile-study command uses: a thumbnail is made from the (PIL-backed) image before
                    # it is tiled; the image must be tiled as it was
                    from PIL import Image as PILImage

                    img = Image.from_pil(PILImage.fromarray(arr.copy()))
                    b0 = Builder(pio)
                    b0.make_thumbnail_from_other(img)
                    tiling = b0.prepare_study_tiling(img)
                    b0.execute_study_tiling(img, tiling)
                elif via == "pil-flipped":
                    # a PIL-backed image with a WCS whose parity was flipped (what the tilers do to put an input
                    # into the parity they need) is tiled as it is AFTER the flip
                    from PIL import Image as PILImage
                    from astropy.wcs import WCS

                    wc = WCS(naxis=2)
                    wc.wcs.ctype = ["RA---TAN", "DEC--TAN"]
                    wc.wcs.crval = [10.0, 20.0]
                    wc.wcs.crpix = [(w + 1) / 2.0, (h + 1) / 2.0]
                    wc.wcs.cdelt = [-1e-3, 1e-3]
                    img = Image.from_pil(PILImage.fromarray(arr.copy()), wcs=wc, default_format=fmt)
                    img.flip_parity()
                    arr = arr[::-1].copy()
                    tiling = tile_study_image(img, pio)
                elif via == "pickled":
                    import pickle

                    tiling = pickle.loads(pickle.dumps(StudyTiling(w, h)))
                    tiling.tile_image(img, pio)
                elif via == "builder":
                    b0 = Builder(pio)
                    tiling = b0.prepare_study_tiling(img)
                    b0.execute_study_tiling(img, tiling)
                else:
                    tiling = tile_study_image(img, pio)
            else:
                ix, iy, sw, sh = sub
                tiling = StudyTiling(w, h)
                st = tiling.compute_for_subimage(ix, iy, sw, sh)
                simg = Image.from_array(arr[iy : iy + sh, ix : ix + sw].copy(), default_format=img_fmt)
                if via == "pickled":
                    # the sub-tiling as a worker process receives it (pickled and restored), also copied
                    import copy
                    import pickle

                    st = copy.deepcopy(pickle.loads(pickle.dumps(st)))
                    st.tile_image(simg, pio)
                elif via == "builder":
                    Builder(pio).execute_study_tiling(simg, st)
                else:
                    st.tile_image(simg, pio)
                # everything outside the sub-image is undefined in the expected canvas
                keep = np.zeros(arr.shape[:2], bool)
                keep[iy : iy + sh, ix : ix + sw] = True
                blank = np.zeros_like(arr)
                if dt[0] == "f":
                    blank[...] = np.nan
                arr_full = arr
                arr = np.where(keep.reshape(keep.shape + (1,) * (arr.ndim - 2)), arr, blank)
            bld = Builder(pio)
            tiling.apply_to_imageset(bld.imgset)
    except Exception as e:
        bad("raises:%s%s" % (type(e).__name__, "/subimage" if sub else ""), repr(e))
        return
    url = bld.imgset.url
    lev = bld.imgset.tile_levels
    if lev != rt.levels(w, h):
        bad("tile-levels", "imgset.tile_levels=%r reference %r" % (lev, rt.levels(w, h)))
        return
    nt = 2**lev
    p = 256 * nt
    # expected canvas in display orientation
    if ch == 3 and dt == "u1":
        want = np.zeros((p, p, 4), dtype="u1")
        gx0, gy0 = rt.offsets(w, h)
        want[gy0 : gy0 + h, gx0 : gx0 + w, :3] = arr
        want[gy0 : gy0 + h, gx0 : gx0 + w, 3] = 255
        if sub is not None:
            ix, iy, sw, sh = sub
            a = np.zeros((h, w), "u1")
            a[iy : iy + sh, ix : ix + sw] = 255
            want[gy0 : gy0 + h, gx0 : gx0 + w, 3] = a
    elif dt == "u1" and ch == 4:
        want = rt.canvas(arr, 0)
    elif dt[0] == "f":
        want = rt.canvas(arr, np.nan)
    else:
        want = rt.canvas(arr, 0)
    got = np.empty_like(want)
    expected_files = set()
    for ty in range(nt):
        for tx in range(nt):
            rel = wtml.expand(url, lev, tx, ty)
            path = os.path.join(out, rel)
            wt = want[ty * 256 : (ty + 1) * 256, tx * 256 : (tx + 1) * 256]
            if dt[0] == "f":
                empty = np.all(np.isnan(wt))
            elif ch in (3, 4) and dt == "u1":
                empty = np.all(wt[..., 3] == 0)
            else:
                empty = np.all(wt == 0)
            if not os.path.exists(path):
                if not empty:
                    bad("tile-missing", "no file at %s although the tile holds image pixels" % rel)
                    return
                g = np.empty_like(wt)
                g[...] = np.nan if dt[0] == "f" else 0
            else:
                expected_files.add(os.path.normpath(rel))
                t = ImageLoader().load_path(path).asarray()
                if fmt == "fits":
                    t = t[::-1]
                if t.shape != wt.shape:
                    if ch == 3 and dt == "u1" and t.shape[:2] == wt.shape[:2] and t.shape[2] == 3:
                        # RGB png cannot carry the mask; compare colour only inside the image
                        t = np.concatenate([t, np.where(wt[..., 3:] > 0, 255, 0).astype("u1")], axis=2)
                    else:
                        bad("tile-shape", "%s has shape %r" % (rel, t.shape))
                        return
                g = t
            got[ty * 256 : (ty + 1) * 256, tx * 256 : (tx + 1) * 256] = g
    if ch in (3, 4) and dt == "u1":
        # colour is only meaningful where alpha > 0
        ok = np.array_equal(got[..., 3], want[..., 3]) and np.array_equal(got[..., :3][want[..., 3] > 0], want[..., :3][want[..., 3] > 0])
    else:
        ok = np.array_equal(got, want, equal_nan=(dt[0] == "f"))
    if not ok:
        diff = np.argwhere(~((got == want) | ((got != got) & (want != want)))) if dt[0] == "f" else np.argwhere(got != want)
        bad("pixels", "reassembled tiles differ from the image at %d positions, first %r" % (len(diff), diff[0].tolist() if len(diff) else None))
    # no stray deepest-level tiles
    import glob

    files = set()
    for root, _d, fs in os.walk(out):
        for f in fs:
            if f.endswith("." + fmt):
                files.add(os.path.normpath(os.path.relpath(os.path.join(root, f), out)))
    if files != expected_files:
        bad("file-set", "files on disk not reachable through the URL template: %r" % (sorted(files ^ expected_files)[:4],))


def _readback(job):
    part = Part()
    with scratch("c08") as d:
        for item in job:
            (w, h, m, scheme) = item[:4]
            readback_case(d, w, h, m, scheme, part, sub=item[4] if len(item) > 4 else None, stale=bool(len(item) > 5 and item[5]), via=item[6] if len(item) > 6 else "direct")
            import shutil

            for e in os.listdir(d):
                shutil.rmtree(os.path.join(d, e), ignore_errors=True)
        part.sample({"readback": job[0]})
    return part


def _job(j):
    return _readback(j[1]) if j[0] == "readback" else _geom_rows(j)


def run(tier, seed):
    rep = Report(PROP, tier, seed, "exploration")
    wmax = 600 if tier == "quick" else 1100
    rep.rule = (
        "geometry: every (width, height) in 1..%d squared%s; sub-images of three parents on the tile-boundary lattice; "
        "read-back: sizes x (mode, lossless format) x naming scheme through the WTML URL template; non-trivial = size not a multiple of 256"
        % (wmax, "" if tier == "quick" else " plus 1..2100 against 12 fixed values of the other axis")
    )
    rep.assumptions = ["RGB/png cannot represent undefined pixels: only colour inside the image is compared for it"]
    jobs = []
    allw = list(range(1, wmax + 1))
    step = 20
    for i in range(0, wmax, step):
        jobs.append(("rows", allw[i : i + step], allw))
    if tier == "thorough":
        fixed = [1, 2, 255, 256, 257, 511, 512, 513, 1024, 1025, 2047, 2100]
        big = list(range(1101, 2101))
        for i in range(0, len(big), 100):
            jobs.append(("rows", big[i : i + 100], fixed))
            jobs.append(("rows", fixed, big[i : i + 100]))
    for parent in [(257, 300), (513, 512), (1025, 260)]:
        jobs.append(("sub", parent))
    if tier == "quick":
        sizes = [(w, h) for w in (1, 256, 257, 513) for h in (1, 256, 257, 513)]
        modes = ["RGBA/png", "RGB/png", "F32/npy", "F32/fits", "U8/npy", "I16/npy", "I32/npy", "I32/fits", "F64/fits", "F16x3/npy"]
    else:
        vals = (1, 2, 255, 256, 257, 300, 511, 512, 513, 600)
        sizes = [(w, h) for w in vals for h in vals]
        modes = list(MODES)
    rb = []
    for k, (w, h) in enumerate(sizes):
        for m in modes:
            rb.append((w, h, m, "L/Y/YX" if (k + len(m)) % 2 == 0 or tier == "thorough" else "LXY"))
            if tier == "thorough":
                rb.append((w, h, m, "LXY"))
    # sub-images placed inside a larger tiling, read back the same way
    subs = [((600, 520), (0, 0, 300, 260)), ((600, 520), (257, 255, 343, 265)), ((600, 520), (44, 3, 256, 256)), ((300, 700), (10, 500, 290, 200)), ((257, 300), (256, 299, 1, 1))]
    for (w, h), sb in subs:
        for m in (["F32/fits", "RGBA/png", "U8/npy"] if tier == "quick" else list(MODES)):
            rb.append((w, h, m, "L/Y/YX", sb))
    # re-tiling over a complete earlier tiling, the new image undefined over a whole tile
    for (w, h) in [(513, 300), (300, 513), (600, 520)] + ([(1025, 260), (257, 257)] if tier == "thorough" else []):
        for m in ("F32/fits", "F32/npy", "RGBA/png", "F64/fits", "F16x3/npy"):
            rb.append((w, h, m, "L/Y/YX" if (w + len(m)) % 2 else "LXY", None, True))
    # the Builder's prepare/execute route (whole images and sub-tilings), and one tiling object re-used for a
    # second image of a wider mode
    for (w, h), sb in subs[:3] + [((513, 300), None), ((257, 257), None)]:
        for m in ("F32/fits", "RGBA/png", "I16/npy"):
            rb.append((w, h, m, "L/Y/YX", sb, False, "builder"))
    # thumbnail made first; sizes of exactly the thumbnail's aspect ratio (96:45) among them
    for (w, h) in [(192, 90), (960, 450), (300, 141), (300, 270), (96, 45)]:
        for m in ("RGB/png", "RGBA/png"):
            rb.append((w, h, m, "L/Y/YX", None, False, "thumbnail-first"))
    for (w, h) in [(300, 270), (257, 513)]:
        for m in sorted(NARROWER):
            rb.append((w, h, m, "LXY" if m.endswith("npy") else "L/Y/YX", None, False, "reuse"))
    # tilings that went through pickle (how they reach worker processes); PIL-backed images flipped before tiling
    for (w, h), sb in subs + [((513, 300), None)]:
        for m in ("F32/fits", "RGBA/png"):
            rb.append((w, h, m, "L/Y/YX", sb, False, "pickled"))
    for (w, h) in [(300, 270), (257, 513), (96, 45)]:
        for m in ("RGB/png", "RGBA/png"):
            rb.append((w, h, m, "L/Y/YX", None, False, "pil-flipped"))
    # image objects labelled with another format than the pyramid's (other row order among them)
    for (w, h), sb in [((420, 300), None), ((257, 513), None), ((600, 520), (257, 255, 343, 265))]:
        for m, labels in (("F32/fits", ("npy", "png")), ("F32/npy", ("fits",)), ("I16/npy", ("fits",)), ("U8/fits", ("png",)), ("RGBA/png", ("fits", "npy"))):
            for lab in labels:
                rb.append((w, h, m, "L/Y/YX", sb, False, "label:" + lab))
    rb = rng_order(rb, seed)
    n = max(1, len(rb) // 6)
    for i in range(0, len(rb), 6):
        jobs.append(("readback", rb[i : i + 6]))
    par.pmap(_job, jobs, rep)
    return rep.finish()


def replay(payload):
    r = payload["replay"]
    part = Part()
    if "mode" in r:
        with scratch("c08r") as d:
            readback_case(d, r["width"], r["height"], r["mode"], r["scheme"], part, sub=tuple(r["sub"]) if r.get("sub") else None, stale=bool(r.get("over_existing_tiling")), via=r.get("via", "direct"))
    else:
        geometry_case(r["width"], r["height"], part, sub=tuple(r["sub"]) if r.get("sub") else None)
    for sig, (detail, _) in part.violations.items():
        print("REPLAY-FAIL", sig, detail)
    return 1 if part.violations else 0
