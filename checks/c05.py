"""C05 -- a tile's 256x256 pixel grid is the centres of the tiles eight levels deeper.

All 65 536 pixels of every tile to a depth bound (plus a deep lattice), both coordinate
systems, against (a) the reference centres of tiles (n+8, 256x+j, 256y+i) and (b) the
Python-side subdivision descended eight levels; each centre inside its tile and within
the latitude range of the tile's corners.
"""
import numpy as np

from vt import par
from vt.harness import Part, Report
from vt.ref import toastgeom as tg
from checks.c04 import cs_of, lattice, tvec

PROP = "C05"


def check_tiles(job):
    from toasty import toast
    from toasty.pyramid import Pos

    positions, first_planetary, python_route = job
    part = Part()

    def bad(clause, detail, cfg):
        part.violation("%s/coordsys=%s" % (clause, cfg["coordsys"]), "%r: %s" % (cfg, detail), cfg)

    # both coordinate systems alternate inside one process, in both orders (see C04)
    half = len(positions) // 2
    work = []
    for k, p in enumerate(positions):
        order = (first_planetary, not first_planetary) if k < half or len(positions) == 1 else (not first_planetary, first_planetary)
        for planetary in order:
            work.append((p, planetary))
    # a library tile filter (a pure query) that every tile is shown to before its pixel grid is asked for
    from astropy.wcs import WCS
    from toasty.samplers import WcsSampler

    fw = WCS(naxis=2)
    fw.wcs.ctype = ["RA---TAN", "DEC--TAN"]
    fw.wcs.crval = [40.0, 10.0]
    fw.wcs.cdelt = [-2.0, 2.0]
    fw.wcs.crpix = [20.5, 20.5]
    query = WcsSampler(np.ones((40, 40), dtype=np.float32), fw).filter()
    for wk, ((n, x, y), planetary) in enumerate(work):
        csn = "planetary" if planetary else "astronomical"
        cs = cs_of(planetary)
        cfg = {"pos": (n, x, y), "coordsys": csn}
        part.case(nontrivial=True, n=1)
        t = toast.create_single_tile(Pos(n, x, y), coordsys=cs)
        if wk % 3 == 1 and n <= 12:
            # ... or the tile as the point lookup hands it out (looked up at the reference centre)
            c0, inc0 = tg.single(n, x, y, planetary)
            lon0, lat0 = tg.lonlat(tg.centre(c0[None, None], np.array([[inc0]]))[0, 0])
            tp = toast.toast_tile_for_point(n, float(lat0), float(lon0), coordsys=cs)
            if tuple(tp.pos) == (n, x, y):
                t = tp
                cfg["tile_from"] = "toast_tile_for_point"
        try:
            query(t)
        except Exception as e:
            bad("filter-query-raises:%s" % type(e).__name__, repr(e), cfg)
        if wk % 2 == 0 and 1 <= n <= 12:
            # a pixel lookup that lands in this very tile immediately before its grid is asked for (and, below, the
            # grid asked for twice): the answer must not depend on either
            try:
                c1, inc1 = tg.single(n, x, y, planetary)
                lon1, lat1 = tg.lonlat(tg.centre(c1[None, None], np.array([[inc1]]))[0, 0])
                if abs(float(lat1)) < np.pi / 2 - np.radians(1.5):
                    toast.toast_tile_get_coords(t)
                    toast.toast_pixel_for_point(n, float(lat1), float(lon1) + 0.3 * (np.pi / 2) / 2**n, coordsys=cs)
            except Exception as e:
                bad("pixel-lookup-raises:%s" % type(e).__name__, repr(e), cfg)
        # the tile is held while the other coordinate system is used (it must not be affected)
        toast.create_single_tile(Pos(n, x, y), coordsys=cs_of(not planetary))
        lon, lat = toast.toast_tile_get_coords(t)
        if lon.shape != (256, 256) or lat.shape != (256, 256):
            bad("grid/shape", "shapes %r %r" % (lon.shape, lat.shape), cfg)
            continue
        got = tg.vec(lon, lat)
        ref = tg.pixel_grid(n, x, y, planetary)
        d = tg.angdist(got, ref)
        part.count("pixels_compared", 65536)
        # judged relative to the pixel size (1e-3 of a pixel, never looser than 1e-9 rad) plus a few ulp
        tol = min(1e-9, 1e-3 * (np.pi / 2) / 2**n / 256) + 4e-15
        if d.max() > tol:
            i, j = np.unravel_index(np.argmax(d), d.shape)
            # classify: transposed? shifted?
            dt = tg.angdist(got, np.swapaxes(ref, 0, 1)).max()
            clause = "grid/transposed" if dt <= tol else "grid/differs-from-deeper-tile-centres"
            bad(clause, "pixel (row %d, col %d) is %.3g rad from the centre of tile (%d,%d,%d); increasing=%r" % (i, j, d.max(), n + 8, 256 * x + j, 256 * y + i, t.increasing), cfg)
            continue
        c, inc = tg.single(n, x, y, planetary)
        inside = tg.contains_many(np.broadcast_to(c, (256, 256, 4, 3)), got, tol=min(1e-12, tol))
        if not inside.all():
            bad("grid/pixel-outside-tile", "%d pixel centres lie outside the tile" % int((~inside).sum()), cfg)
        clat = np.array([float(q[1]) for q in t.corners])
        if lat.min() < clat.min() - 1e-12 or lat.max() > clat.max() + 1e-12:
            bad("grid/latitude-range", "pixel latitudes [%.6f, %.6f] outside corner range [%.6f, %.6f]" % (lat.min(), lat.max(), clat.min(), clat.max()), cfg)
        if not python_route:
            # a few pixels against the tiles toasty itself constructs eight levels deeper (single-tile route)
            for (i, j) in ((0, 0), (0, 255), (255, 0), (255, 255), (127, 128), (10, 200)):
                tt = toast.create_single_tile(Pos(n + 8, 256 * x + j, 256 * y + i), coordsys=cs)
                v = tvec(tt)
                cen = tg.mid(v[3], v[1]) if tt.increasing else tg.mid(v[0], v[2])
                part.count("python_route_tiles")
                if tg.angdist(cen, got[i, j]) > tol:
                    bad("python-route/deeper-tile-centre-differs", "pixel (row %d, col %d) is %.3g rad (%.3g pixel widths) from the centre of the tile (%d,%d,%d) that create_single_tile builds" % (i, j, tg.angdist(cen, got[i, j]), tg.angdist(cen, got[i, j]) / ((np.pi / 2) / 2**n / 256), n + 8, 256 * x + j, 256 * y + i), cfg)
                    break
        if python_route:
            # the Python-side subdivision (_div4 via the public generator), eight levels down
            anc = lambda tt: True
            sub = {}
            prefix = (n, x, y)

            def flt(tt):
                p = tt.pos
                if p.n <= n:
                    return (p.x, p.y) == (x >> (n - p.n), y >> (n - p.n))
                return (p.x >> (p.n - n), p.y >> (p.n - n)) == (x, y)

            py = np.empty((256, 256, 3))
            cnt = 0
            for tt in toast.generate_tiles_filtered(n + 8, flt, bottom_only=True, coordsys=cs):
                v = tvec(tt)
                cen = tg.mid(v[3], v[1]) if tt.increasing else tg.mid(v[0], v[2])
                py[tt.pos.y - 256 * y, tt.pos.x - 256 * x] = cen
                cnt += 1
            part.count("python_route_tiles", cnt)
            if cnt != 65536:
                bad("python-route/tile-count", "filtered descent yielded %d tiles" % cnt, cfg)
            elif tg.angdist(py, got).max() > 1e-9:
                bad("python-route/disagrees-with-compiled-grid", "max offset %.3g rad" % tg.angdist(py, got).max(), cfg)
    part.sample({"coordsys": "both, alternating", "tiles": positions[:3], "pixels_per_tile": 65536})
    return part


def depth0(part):
    """The level-0 tile through the public sampling route: the grid handed to the sampler at depth 0
    is the centres of the 65 536 level-8 tiles."""
    from toasty import toast
    from toasty.pyramid import PyramidIO
    from vt.fixtures import scratch, quiet

    for planetary in (False, True):
        csn = "planetary" if planetary else "astronomical"
        cfg = {"pos": (0, 0, 0), "coordsys": csn}
        part.case(nontrivial=True)
        seen = {}

        def sampler(lon, lat):
            seen["g"] = (np.array(lon), np.array(lat))
            return np.zeros(lon.shape, dtype=np.float32) + 1

        with scratch("c05") as d:
            try:
                with quiet():
                    toast.sample_layer(PyramidIO(d, default_format="npy"), sampler, 0, coordsys=cs_of(planetary), parallel=1)
            except Exception as e:
                part.violation("depth0/raises:%s/coordsys=%s" % (type(e).__name__, csn), "%r: %r" % (cfg, e), cfg)
                continue
        if "g" not in seen:
            part.violation("depth0/no-grid/coordsys=%s" % csn, "%r: the sampler was never called" % (cfg,), cfg)
            continue
        got = tg.vec(*seen["g"])
        ref = tg.pixel_grid(0, 0, 0, planetary)
        dmax = tg.angdist(got, ref).max()
        part.count("pixels_compared", 65536)
        if got.shape != ref.shape or dmax > 1e-9:
            part.violation("depth0/grid-differs-from-level8-tile-centres/coordsys=%s" % csn, "%r: max offset %.3g rad" % (cfg, dmax), cfg)


def _coord_sampler(lon, lat):
    # the stored tile holds the coordinates the sampler was handed (module level: sent to worker processes)
    return lon.astype(np.float64) + 10.0 * lat.astype(np.float64)


def layer_case(depth, planetary, fmt, parallel, part):
    """'Sampling a layer directly': through sample_layer (serial, and with real worker processes) the
    coordinates handed to the sampler -- recovered from the stored tiles, whose data ARE lon + 10 lat --
    are the centres of the tiles eight levels deeper, row for row in display orientation."""
    from toasty import toast
    from toasty.pyramid import PyramidIO, Pos
    from vt.fixtures import scratch, quiet

    csn = "planetary" if planetary else "astronomical"
    part.case(nontrivial=True)
    with scratch("c05l") as d:
        pio = PyramidIO(d, default_format=fmt)
        try:
            with quiet():
                if parallel == 1 and fmt == "npy":
                    # through the Builder with the coordinate system given explicitly and the planet flag saying the
                    # opposite: the explicit keyword decides where the pixels are
                    from toasty.builder import Builder

                    Builder(pio).toast_base(_coord_sampler, depth, is_planet=not planetary, coordsys=cs_of(planetary), parallel=1)
                else:
                    toast.sample_layer(pio, _coord_sampler, depth, coordsys=cs_of(planetary), parallel=parallel)
        except Exception as e:
            cfg = {"pos": (depth, 0, 0), "coordsys": csn, "layer": True, "format": fmt, "parallel": parallel}
            part.violation("layer/raises:%s/%s" % (type(e).__name__, "parallel" if parallel > 1 else "serial"), "%r: %r" % (cfg, e), cfg)
            return
        n = 2**depth
        for y in range(n):
            for x in range(n):
                cfg = {"pos": (depth, x, y), "coordsys": csn, "layer": True, "format": fmt, "parallel": parallel}
                img = pio.read_image(Pos(depth, x, y))
                if img is None:
                    part.violation("layer/tile-missing/%s" % ("parallel" if parallel > 1 else "serial"), "%r: no tile stored" % (cfg,), cfg)
                    return
                a = np.asarray(img.asarray(), dtype=np.float64)
                if fmt == "fits":
                    a = a[::-1]
                lon, lat = tg.lonlat(tg.pixel_grid(depth, x, y, planetary))
                # longitudes are compared modulo 2 pi through the combined value's residual
                want = lon + 10.0 * lat
                diff = np.abs(a - want)
                diff = np.minimum(diff, np.abs(diff - 2 * np.pi))
                # rows containing a pole pixel have an arbitrary longitude
                ok = (diff < 1e-9) | (np.abs(np.abs(lat) - np.pi / 2) < 1e-9)
                part.count("pixels_compared", 65536)
                if not ok.all():
                    alt = np.abs(a[::-1] - want)
                    alt = np.minimum(alt, np.abs(alt - 2 * np.pi))
                    clause = "rows-reversed" if ((alt < 1e-9) | (np.abs(np.abs(lat) - np.pi / 2) < 1e-9)).all() else "off-centre"
                    part.violation("layer/%s/%s/%s" % (clause, fmt, "parallel" if parallel > 1 else "serial"), "%r: the coordinates the sampler received differ from the deeper tiles' centres at %d pixels (max %.3g rad)" % (cfg, int((~ok).sum()), float(diff[~ok].max())), cfg)
                    return


def pyramid_route(depth, planetary, part, variant="plain"):
    """Tiles handed out by a Pyramid traversal (what the samplers receive): a pyramid made for one coordinate
    system, traversed AFTER a second pyramid was made for the other one, still delivers its own system's
    tiles - all 65 536 pixel centres of each compared."""
    from toasty import toast
    from toasty.pyramid import Pyramid

    csn = "planetary" if planetary else "astronomical"
    if variant == "filtered":
        # a filtered pyramid (here the filter accepts three of the four quadrants)
        first = Pyramid.new_toast_filtered(depth, lambda t: (t.pos.n, t.pos.x >> (t.pos.n - 1), t.pos.y >> (t.pos.n - 1)) != (1, 0, 1), coordsys=cs_of(planetary))
    elif variant == "subpyramid":
        # restricted to a sub-pyramid whose apex is two levels down
        from toasty.pyramid import Pos

        first = Pyramid.new_toast(depth, coordsys=cs_of(planetary))
        first.subpyramid(Pos(2, 1, 2))
    else:
        first = Pyramid.new_toast(depth, coordsys=cs_of(planetary))
    Pyramid.new_toast(depth, coordsys=cs_of(not planetary))
    got = []
    first.visit_leaves(lambda pos, tile: got.append((tuple(pos), tile)), parallel=1)
    if not got:
        part.violation("pyramid-route/no-tiles/%s" % variant, "the %s %s pyramid of depth %d delivered no leaf" % (variant, csn, depth), {"pos": (depth, 0, 0), "coordsys": csn, "pyramid_route": True, "variant": variant})
    for pos, tile in got:
        part.case(nontrivial=True)
        cfg = {"pos": pos, "coordsys": csn, "pyramid_route": True, "variant": variant}
        lon, lat = toast.toast_tile_get_coords(tile)
        ref = tg.pixel_grid(pos[0], pos[1], pos[2], planetary)
        dmax = tg.angdist(tg.vec(lon, lat), ref).max()
        part.count("pixels_compared", 65536)
        if dmax > 1e-9:
            part.violation("pyramid-route/grid-differs-from-deeper-tile-centres/coordsys=%s" % csn, "%r: a pyramid made for the %s system and traversed after a pyramid for the other system was made delivers tile %r whose pixel grid is %.3g rad off" % (cfg, csn, pos, dmax), cfg)
            return


def _c05job(j):
    if j[0] == "pyramid-route":
        p = Part()
        pyramid_route(j[1], j[2], p, j[3] if len(j) > 3 else "plain")
        return p
    if j[0] == "layer":
        p = Part()
        layer_case(j[1], j[2], j[3], j[4], p)
        return p
    if j[0] == "depth0":
        p = Part()
        depth0(p)
        return p
    return check_tiles(j)


def run(tier, seed):
    rep = Report(PROP, tier, seed, "exploration")
    d = 2 if tier == "quick" else 4
    nlat = 10 if tier == "quick" else 12
    rep.rule = (
        "all 65536 pixels of every tile at depths 1..%d, of a deep lattice to depth %d and of pole-, seam- and equator-touching tiles to depth 26 (28), to 1e-3 of a pixel; both coordinate systems (hence both diagonal orientations), "
        "against reference centres of the tiles 8 levels deeper; Python-route descent for depth <= %d; every tile is non-trivial"
        % (d, nlat, 1 if tier == "quick" else 2)
    )
    rep.assumptions = ["the compiled helper is exercised as built (Cython unavailable: .pyx edits cannot be rebuilt)", "depth 0 is reached through sample_layer(depth=0) with a recording sampler"]
    jobs = []
    allp = [(n, x, y) for n in range(1, d + 1) for y in range(2**n) for x in range(2**n)]
    lat = [p for p in lattice(nlat) if p[0] > d]
    # far deeper: the tiles touching the poles and the seam corners (where special-casing of poles would sit)
    for n in ((16, 20, 23, 26) if tier == "quick" else (14, 16, 18, 20, 22, 24, 26, 28)):
        side = 2**n
        for (x, y) in [(side // 2 - 1, side // 2 - 1), (side // 2, side // 2), (side // 2 - 1, side // 2), (0, 0), (side - 1, 0), (side - 1, side - 1), (side // 2, 0), (0, side // 2 - 1), (side // 3, side // 5)]:
            lat.append((n, x, y))
    pr = [(1, x, y) for y in range(2) for x in range(2)]
    if tier == "thorough":
        pr += [(2, x, y) for y in range(4) for x in range(4)]
    for i, p in enumerate(pr):
        jobs.append(([p], bool(i % 2), True))
    both = allp + lat
    k = 14
    for i in range(k):
        jobs.append((both[i::k], bool(i % 2), False))
    jobs.append(("depth0",))
    for planetary in (False, True):
        jobs.append(("pyramid-route", 1 if tier == "quick" else 2, planetary))
        jobs.append(("pyramid-route", 2, planetary, "filtered"))
        jobs.append(("pyramid-route", 3, planetary, "subpyramid"))
    for depth in (1, 2) if tier == "quick" else (0, 1, 2, 3):
        for planetary in (False, True):
            for fmt in ("npy", "fits"):
                for parallel in (1, 2):
                    if depth == 0 and parallel > 1:
                        continue
                    jobs.append(("layer", depth, planetary, fmt, parallel))
    par.pmap(_c05job, jobs, rep)
    return rep.finish()


def replay(payload):
    r = payload["replay"]
    if r.get("pyramid_route"):
        p = Part()
        pyramid_route(r["pos"][0], r["coordsys"] == "planetary", p, r.get("variant", "plain"))
    elif r.get("layer"):
        p = Part()
        layer_case(r["pos"][0], r["coordsys"] == "planetary", r["format"], r["parallel"], p)
    elif tuple(r["pos"]) == (0, 0, 0):
        p = Part()
        depth0(p)
    else:
        p = check_tiles(([tuple(r["pos"])], r["coordsys"] == "planetary", r["pos"][0] <= 1))
    for sig, (detail, _) in p.violations.items():
        print("REPLAY-FAIL", sig, detail[:300])
    return 1 if p.violations else 0
