"""C15 -- undefined pixels stay undefined: mask semantics and tile persistence.

Part A: every mode x indexer kind x every defined/undefined pattern of source and
destination on a small buffer, fill/update/clear/is_completely_masked against the
reference mask model.  Part B: breadth-first search over operation histories on one
PyramidIO directory (write/read/update/stale file) against a reference dict, for every
(mode, lossless format able to hold it) pair and both naming schemes.
"""
import itertools
import os
import shutil

import numpy as np

from vt import par
from vt.fixtures import scratch, quiet, rng_order
from vt.harness import Part, Report

PROP = "C15"

MODES = ["RGB", "RGBA", "F32", "F64", "F16x3", "U8", "I16", "I32"]
INT_MODES = ("U8", "I16", "I32")
# formats able to represent each mode (from the formats' definitions)
FORMATS = {
    "RGB": ["npy", "png"],
    "RGBA": ["npy", "png"],
    "F32": ["npy", "fits"],
    "F64": ["npy", "fits"],
    "F16x3": ["npy"],
    "U8": ["npy", "fits"],
    "I16": ["npy", "fits"],
    "I32": ["npy", "fits"],
}
DT = {"RGB": ("u1", 3), "RGBA": ("u1", 4), "F32": ("f4", 0), "F64": ("f8", 0), "F16x3": ("f2", 3), "U8": ("u1", 0), "I16": ("i2", 0), "I32": ("i4", 0)}


def buf_shape(mode, h, w):
    dt, ch = DT[mode]
    if mode == "RGB":
        return (h, w, 4), "u1"
    return ((h, w, ch) if ch else (h, w)), dt


def make_src(mode, h, w, defined, base):
    """Source image array: pixel k defined iff defined[k]; distinct defined values."""
    dt, ch = DT[mode]
    shape = (h, w, ch) if ch else (h, w)
    a = np.zeros(shape, dtype=dt)
    for k in range(h * w):
        y, x = divmod(k, w)
        v = base + 3 * k
        if mode == "RGB":
            a[y, x] = (v % 256, (v + 50) % 256, (v + 100) % 256)
        elif mode == "RGBA":
            # alpha above the destination's (150 + k) for even pixels, far below it for odd ones: a defined source
            # pixel replaces the old value whatever the two opacities are
            a[y, x] = (v % 256, (v + 50) % 256, (v + 100) % 256, (200 + k if k % 2 == 0 else 20 + k) if defined[k] else 0)
        elif mode in ("F32", "F64"):
            # +-inf are defined values (only NaN is undefined)
            a[y, x] = (np.inf if k % 5 == 1 else (-np.inf if k % 5 == 3 else v + 0.5)) if defined[k] else np.nan
        elif mode == "F16x3":
            if defined[k]:
                a[y, x] = (v, np.inf if k % 5 == 1 else v + 1, v + 2)
            elif k % 2:
                a[y, x] = (np.nan, np.nan, np.nan)
            else:
                a[y, x] = (v, np.nan, v + 2)  # one NaN channel makes the pixel undefined
        else:
            a[y, x] = v if defined[k] else 0
    return a


def make_dst(mode, h, w, defined, base):
    shape, dt = buf_shape(mode, h, w)
    a = np.zeros(shape, dtype=dt)
    for k in range(h * w):
        y, x = divmod(k, w)
        v = base + 5 * k
        if mode in ("RGB", "RGBA"):
            a[y, x] = (v % 256, (v + 30) % 256, (v + 60) % 256, 150 + k) if defined[k] else (0, 0, 0, 0)
        elif mode in ("F32", "F64"):
            a[y, x] = (np.inf if k % 4 == 2 else v + 0.25) if defined[k] else np.nan
        elif mode == "F16x3":
            a[y, x] = (v, v + 1, -np.inf if k % 4 == 2 else v + 2) if defined[k] else (np.nan, np.nan, np.nan)
        else:
            a[y, x] = v if defined[k] else 0
    return a


def undefined_mask(mode, a, is_buffer):
    if mode == "RGB" and not is_buffer:
        return np.zeros(a.shape[:2], bool)
    if mode in ("RGB", "RGBA"):
        return a[..., 3] == 0
    if mode in ("F32", "F64"):
        return np.isnan(a)
    if mode == "F16x3":
        return np.any(np.isnan(a), axis=2)
    return a == 0


def ref_fill(mode, src, dst, sy, sx, dy, dx):
    """dy/dx: lists of destination coordinates per addressed pixel (same order as sy/sx)."""
    out = np.empty_like(dst)
    if mode in ("F32", "F64", "F16x3"):
        out[...] = np.nan
    else:
        out[...] = 0
    for (iy, ix, by, bx) in zip(sy, sx, dy, dx):
        if mode == "RGB":
            out[by, bx, :3] = src[iy, ix]
            out[by, bx, 3] = 255
        else:
            out[by, bx] = src[iy, ix]
    return out


def ref_update(mode, src, dst, sy, sx, dy, dx):
    out = dst.copy()
    sund = undefined_mask(mode, src, False)
    for (iy, ix, by, bx) in zip(sy, sx, dy, dx):
        if sund[iy, ix]:
            continue
        if mode == "RGB":
            out[by, bx, :3] = src[iy, ix]
            out[by, bx, 3] = 255
        elif mode in INT_MODES:
            out[by, bx] = max(out[by, bx], src[iy, ix])
        else:
            out[by, bx] = src[iy, ix]
    return out


def same(a, b):
    # byte order is a storage detail (FITS is big-endian); kind and width are the mode
    return (
        a.shape == b.shape
        and a.dtype.kind == b.dtype.kind
        and a.dtype.itemsize == b.dtype.itemsize
        and np.array_equal(a, b, equal_nan=a.dtype.kind == "f")
    )


# indexer kinds: (name, src shape, buffer shape, iy, ix, by, bx, coordinate lists)
def indexers(H=2, W=3):
    out = []
    coords = [(y, x) for y in range(H) for x in range(W)]
    sy, sx = [c[0] for c in coords], [c[1] for c in coords]
    out.append(("full", (H, W), (H, W), slice(None), slice(None), slice(None), slice(None), sy, sx, sy, sx))
    if (H, W) != (2, 3):
        out.append(("negrow-to-0", (H, W), (H, W), slice(None), slice(None), slice(H - 1, None, -1), slice(None), sy, sx, [H - 1 - y for y in sy], sx))
        return out
    # a sub-rectangle of a larger source into a sub-rectangle of a larger buffer
    out.append(("subrect", (3, 4), (4, 5), slice(1, 3), slice(0, 3), slice(2, 4), slice(1, 4), [1 + y for y in sy], sx, [2 + y for y in sy], [1 + x for x in sx]))
    # negative-step row slice down to row 0 (as tile_image / multi-WCS use for bottom-up tiles)
    out.append(("negrow-to-0", (H, W), (H, W), slice(None), slice(None), slice(H - 1, None, -1), slice(None), sy, sx, [H - 1 - y for y in sy], sx))
    out.append(("negrow-inner", (H, W), (4, 3), slice(None), slice(None), slice(2, 0, -1), slice(None), sy, sx, [2 - y for y in sy], sx))
    # rectangles that start at the origin and stop ONE pixel short of covering the buffer (column 3 of 4 / row 0 of
    # a flipped row range is not addressed and must come out undefined whatever the buffer held before)
    out.append(("one-short-col", (H, W), (H, W + 1), slice(None), slice(None), slice(None), slice(0, W), sy, sx, sy, sx))
    out.append(("one-short-row-flipped", (H, W), (H + 1, W), slice(None), slice(None), slice(H, 0, -1), slice(None), sy, sx, [H - y for y in sy], sx))
    return out


def buffers_job(mode, H=2, W=3):
    from toasty.image import Image, ImageMode

    part = Part()
    M = ImageMode[mode]
    NP = H * W
    pats = list(itertools.product([False, True], repeat=NP))
    src_pats = [tuple([True] * NP)] if mode == "RGB" else pats

    def bad(clause, kind, detail, cfg):
        part.violation("buffer/%s/mode=%s/indexer=%s" % (clause, mode, kind), "%r: %s" % (cfg, detail), cfg)

    for kind, sshape, bshape, iy, ix, by, bx, sy, sx, dy, dx in indexers(H, W):
        nsrc = sshape[0] * sshape[1]
        ndst = bshape[0] * bshape[1]
        for sp in src_pats:
            # place the 6-pixel pattern onto the addressed pixels of the source
            sdef = [True] * nsrc
            for k, (y, x) in enumerate(zip(sy, sx)):
                sdef[y * sshape[1] + x] = sp[k]
            src = make_src(mode, sshape[0], sshape[1], sdef, 40)
            for dp in pats:
                ddef = [bool((k * 7 + 3) % 3) for k in range(ndst)]
                for k, (y, x) in enumerate(zip(dy, dx)):
                    ddef[y * bshape[1] + x] = dp[k]
                # destination values straddle the source values so that "keeps the larger" and
                # "source replaces" differ
                dst = make_dst(mode, bshape[0], bshape[1], ddef, 45)
                cfg = {"mode": mode, "indexer": kind, "src_defined": sp, "dst_defined": dp}
                part.case(nontrivial=(not all(sp)) or (not all(dp)))
                simg = Image.from_array(src.copy())
                # update
                b = Image.from_array(dst.copy())
                try:
                    simg.update_into_maskable_buffer(b, iy, ix, by, bx)
                except Exception as e:
                    bad("update-raises:%s" % type(e).__name__, kind, repr(e), cfg)
                    continue
                want = ref_update(mode, src, dst, sy, sx, dy, dx)
                got = b.asarray()
                if not same(got, want):
                    # classify
                    outside = np.ones(bshape, bool)
                    outside[dy, dx] = False
                    g2 = got if got.ndim == 2 else got.reshape(bshape + (-1,))
                    w2 = want if want.ndim == 2 else want.reshape(bshape + (-1,))
                    neq = ~((g2 == w2) | ((g2 != g2) & (w2 != w2)))
                    if neq.ndim == 3:
                        neq = neq.any(axis=2)
                    clause = "update-changes-outside-rectangle" if (neq & outside).any() else "update-wrong-value"
                    bad(clause, kind, "got\n%r\nwant\n%r" % (got.tolist(), want.tolist()), cfg)
                # fill (the destination's previous content must not matter)
                if dp in (pats[0], pats[-1], pats[min(21, len(pats) - 2)]):
                    b = Image.from_array(dst.copy())
                    try:
                        simg.fill_into_maskable_buffer(b, iy, ix, by, bx)
                    except Exception as e:
                        bad("fill-raises:%s" % type(e).__name__, kind, repr(e), cfg)
                        continue
                    want = ref_fill(mode, src, dst, sy, sx, dy, dx)
                    if not same(b.asarray(), want):
                        bad("fill-wrong", kind, "got\n%r\nwant\n%r" % (b.asarray().tolist(), want.tolist()), cfg)
        # fill with pointwise integer-array indexers (as the chunked sampler does)
        if kind == "full" and (H, W) == (2, 3):
            for sp in src_pats[:: max(1, len(src_pats) // 8)]:
                src = make_src(mode, 2, 3, list(sp), 40)
                for sel in ([0, 1, 2, 3, 4, 5], [0, 2, 5], [4], []):
                    cfg = {"mode": mode, "indexer": "intarray", "src_defined": sp, "selected": sel}
                    part.case(nontrivial=True)
                    yy = np.array([s // 3 for s in sel], dtype=int)
                    xx = np.array([s % 3 for s in sel], dtype=int)
                    byy = np.array([1 - s // 3 for s in sel], dtype=int)
                    bxx = np.array([2 - s % 3 for s in sel], dtype=int)
                    dst = make_dst(mode, 2, 3, [True] * 6, 45)
                    b = Image.from_array(dst.copy())
                    try:
                        Image.from_array(src.copy()).fill_into_maskable_buffer(b, yy, xx, byy, bxx)
                    except Exception as e:
                        bad("fill-raises:%s" % type(e).__name__, "intarray", repr(e), cfg)
                        continue
                    want = ref_fill(mode, src, dst, yy.tolist(), xx.tolist(), byy.tolist(), bxx.tolist())
                    if not same(b.asarray(), want):
                        bad("fill-wrong", "intarray", "got\n%r\nwant\n%r" % (b.asarray().tolist(), want.tolist()), cfg)
    # clear / is_completely_masked / make_maskable_buffer on every destination pattern
    if (H, W) != (2, 3):
        part.sample({"mode": mode, "pattern_size": (H, W), "patterns": "all 2^%d x 2^%d" % (NP, NP)})
        return part
    for dp in pats:
        dst = make_dst(mode, 2, 3, list(dp), 45)
        cfg = {"mode": mode, "dst_defined": dp}
        part.case(nontrivial=True)
        bimg = Image.from_array(dst.copy())
        want_masked = bool(np.all(undefined_mask(mode, dst, True)))
        try:
            got_masked = bool(bimg.is_completely_masked())
        except Exception as e:
            bad("is_completely_masked-raises:%s" % type(e).__name__, "-", repr(e), cfg)
            continue
        if mode == "RGB":
            # an RGBA buffer is what an RGB image's maskable buffer is; asked of an RGB *image* there
            # is no undefined state at all
            rgb = Image.from_array(dst[..., :3].copy())
            if rgb.is_completely_masked():
                bad("is_completely_masked", "-", "RGB image reported as completely masked", cfg)
        if got_masked != want_masked:
            bad("is_completely_masked", "-", "is_completely_masked()=%r, all pixels undefined=%r" % (got_masked, want_masked), cfg)
        bimg.clear()
        if not np.all(undefined_mask(mode, bimg.asarray(), True)):
            bad("clear", "-", "clear() left defined pixels", cfg)
    mb = M.make_maskable_buffer(4, 5)
    shape, dt = buf_shape(mode, 4, 5)
    if mb.asarray().shape != shape or mb.asarray().dtype != np.dtype(dt):
        bad("make_maskable_buffer", "-", "shape/dtype %r %r" % (mb.asarray().shape, mb.asarray().dtype), {"mode": mode})
    # quadrant-constant patterns at tile size through the real 256x256 path
    for q in range(16):
        part.case(nontrivial=True)
        sdef = np.zeros((256, 256), bool)
        for k in range(4):
            if q >> k & 1:
                sdef[(k // 2) * 128 : (k // 2 + 1) * 128, (k % 2) * 128 : (k % 2 + 1) * 128] = True
        if mode == "RGB":
            sdef[...] = True
        small = make_src(mode, 1, 2, [True, False], 77)
        src = np.where(sdef.reshape(sdef.shape + (1,) * (small.ndim - 2)), small[0, 0], small[0, 1]).astype(small.dtype)
        b = M.make_maskable_buffer(256, 256)
        b.clear()
        Image.from_array(src).update_into_maskable_buffer(b, slice(None), slice(None), slice(None), slice(None))
        und = undefined_mask(mode, b.asarray(), True)
        if not np.array_equal(und, ~sdef):
            bad("update-256", "full", "quadrant pattern %d: defined region differs" % q, {"mode": mode, "quadrants": q})
    part.sample({"mode": mode, "indexers": [i[0] for i in indexers()] + ["intarray"], "patterns": "all 2^6 x 2^6"})
    return part


def buffer_history_job(mode, depth=3):
    """Every sequence of up to `depth` operations on ONE buffer object (the way merge.py, study tiling and
    the samplers reuse one scratch buffer), against a reference array: after every step the pixels, the
    answer of is_completely_masked() and what PyramidIO.write_image does with the buffer (store it, or
    leave no file) must follow the buffer's current content, not an earlier one."""
    from toasty.image import Image, ImageMode
    from toasty.pyramid import PyramidIO, Pos

    part = Part()
    M = ImageMode[mode]
    H, W = 2, 3
    coords = [(y, x) for y in range(H) for x in range(W)]
    sy, sx = [c[0] for c in coords], [c[1] for c in coords]
    fmt = FORMATS[mode][0]
    srcs = {
        "fill_def": make_src(mode, H, W, [True] * 6, 40),
        "update_part": make_src(mode, H, W, [True, False, False, True, False, False], 90),
    }
    if mode != "RGB":
        srcs["fill_und"] = make_src(mode, H, W, [False] * 6, 40)
        srcs["update_und"] = make_src(mode, H, W, [False] * 6, 60)
    if mode == "F16x3":
        # an undefined pixel of these histories has all three channels NaN (a pixel with a single NaN channel is
        # skipped by update but not counted as masked by is_completely_masked; that mixed case is left out)
        for a in srcs.values():
            a[np.any(np.isnan(a), axis=2)] = np.nan
    ops = ["clear"] + sorted(srcs)
    pos = Pos(1, 0, 1)

    def bad(clause, detail, hist):
        cfg = {"mode": mode, "one_buffer_history": list(hist), "format": fmt}
        if clause == "is_completely_masked" and mode in INT_MODES:
            # the same call as the recorded finding: an all-zero integer buffer is reported as not masked
            part.violation("buffer/is_completely_masked/mode=%s/indexer=-" % mode, "%r: %s" % (cfg, detail), {"mode": mode, "dst_defined": (False,) * 6})
            return
        if clause == "all-undefined-tile-stored" and mode in INT_MODES:
            part.violation("persistence/all-undefined-tile-stored/mode=%s/format=%s" % (mode, fmt), "%r: %s" % (cfg, detail), {"mode": mode, "format": fmt, "scheme": "L/Y/YX", "history": ["write_undef"]})
            return
        part.violation("buffer-history/%s/mode=%s" % (clause, mode), "%r: %s" % (cfg, detail), cfg)

    with scratch("c15h") as d:
        for n in range(1, depth + 1):
            for hist in itertools.product(ops, repeat=n):
                part.case(nontrivial=n > 1)
                b = M.make_maskable_buffer(H, W)
                shape, dt = buf_shape(mode, H, W)
                ref = np.zeros(shape, dtype=dt)
                if np.dtype(dt).kind == "f":
                    ref[...] = np.nan
                root = os.path.join(d, "h")
                shutil.rmtree(root, ignore_errors=True)
                pio = PyramidIO(root, default_format=fmt)
                ok = True
                try:
                    b.clear()
                    for k, op in enumerate(hist):
                        if op == "clear":
                            b.clear()
                            ref = np.zeros(shape, dtype=dt)
                            if np.dtype(dt).kind == "f":
                                ref[...] = np.nan
                        elif op.startswith("fill"):
                            Image.from_array(srcs[op].copy()).fill_into_maskable_buffer(b, slice(None), slice(None), slice(None), slice(None))
                            ref = ref_fill(mode, srcs[op], ref, sy, sx, sy, sx)
                        else:
                            Image.from_array(srcs[op].copy()).update_into_maskable_buffer(b, slice(None), slice(None), slice(None), slice(None))
                            ref = ref_update(mode, srcs[op], ref, sy, sx, sy, sx)
                        h = hist[: k + 1]
                        if not same(np.asarray(b.asarray()), ref):
                            bad("pixels", "after %r the buffer holds %r, reference %r" % (h, np.asarray(b.asarray()).tolist(), ref.tolist()), h)
                            ok = False
                            break
                        want_masked = bool(np.all(undefined_mask(mode, ref, True)))
                        got_masked = bool(b.is_completely_masked())
                        if got_masked != want_masked:
                            bad("is_completely_masked", "after %r is_completely_masked() = %r although %s" % (h, got_masked, "every pixel is undefined" if want_masked else "defined pixels are present"), h)
                        pio.write_image(pos, b)
                        exists = os.path.exists(pio.tile_path(pos, makedirs=False))
                        if exists != (not want_masked):
                            bad("all-undefined-tile-stored" if exists else "tile-with-defined-pixels-not-stored", "after %r write_image %s" % (h, "left a file for an all-undefined buffer" if exists else "stored nothing"), h)
                        elif exists:
                            back = np.asarray(pio.read_image(pos).asarray())
                            cmp_ref = ref if not (mode == "RGB" and fmt in ("png",)) else ref
                            if back.shape == cmp_ref.shape and not same(back[::-1] if fmt == "fits" else back, cmp_ref):
                                bad("stored-tile-differs", "after %r the stored tile differs from the buffer" % (h,), h)
                except Exception as e:
                    bad("raises:%s" % type(e).__name__, repr(e), hist)
        part.count("one_buffer_histories", sum(len(ops) ** n for n in range(1, depth + 1)))
    part.sample({"mode": mode, "one_buffer_history_alphabet": ops, "depth": depth})
    return part


# --- Part B: persistence histories ----------------------------------------------------------

OPS = ["write_A", "write_B", "write_partial", "write_undef", "write_undef_as_rgb", "write_inf", "read_none", "read_masked", "update_identity", "update_region", "update_clear", "stale_file"]


def tile_arrays(mode):
    dt, ch = DT[mode]
    shape = (256, 256, ch) if ch else (256, 256)
    yy, xx = np.mgrid[0:256, 0:256]

    def mk(base):
        v = (yy * 3 + xx + base) % 200 + 1
        if mode == "RGB":
            return np.stack([v, (v + 20) % 256, (v + 40) % 256], axis=-1).astype("u1")
        if mode == "RGBA":
            return np.stack([v, (v + 20) % 256, (v + 40) % 256, 255 - (v % 100)], axis=-1).astype("u1")
        if mode == "F16x3":
            return np.stack([v, v + 1, v + 2], axis=-1).astype("f2")
        if mode in ("F32", "F64"):
            return (v * 0.5 + 0.25).astype(dt)
        return v.astype(dt)

    A, B = mk(0), mk(17)
    if mode in ("RGB", "RGBA"):
        # defined, opaque, pure-black pixels (what a "black to transparent" input option would erase)
        for arr, pts in ((A, [(5, 5), (130, 60)]), (B, [(7, 9), (110, 40)])):
            for y, x in pts:
                arr[y, x, :3] = 0
                if mode == "RGBA":
                    arr[y, x, 3] = 255
    partial = A.copy()
    undef = A.copy()
    if mode == "RGB":
        return A, B, None, None
    if mode == "RGBA":
        partial[:100] = 0
        undef[...] = 0
    elif mode in ("F32", "F64", "F16x3"):
        partial[:100] = np.nan
        undef[...] = np.nan
    else:
        partial[:100] = 0
        undef[...] = 0
    return A, B, partial, undef


def all_undefined(mode, a):
    return bool(np.all(undefined_mask(mode, a, mode != "RGB" or a.shape[-1] == 4)))


def persistence_job(job):
    from toasty.image import Image, ImageMode
    from toasty.pyramid import PyramidIO, Pos

    mode, fmt, scheme, maxdepth = job[:4]
    explicit = len(job) > 4 and job[4]
    prelude = len(job) > 5 and job[5]
    # explicit: the pyramid's default format is another one and every call names the format
    fk = {"format": fmt} if explicit else {}
    default_format = fmt if not explicit else ("png" if fmt != "png" else "npy")
    part = Part()
    M = ImageMode[mode]
    A, B, partial, undef = tile_arrays(mode)
    pos = Pos(2, 1, 3)
    other = Pos(2, 3, 1)
    region = (slice(100, 140), slice(30, 80))

    def bad(clause, detail, hist):
        cfg = {"mode": mode, "format": fmt, "scheme": scheme, "history": hist, "explicit_format": bool(explicit)}
        if prelude:
            cfg["prelude"] = "input-loader-with-options"
        part.violation("persistence/%s/mode=%s/format=%s" % (clause, mode, fmt), "%r: %s" % (cfg, detail), cfg)

    def run_prelude(d):
        """An input image loaded earlier in the same process through the command-line loader with every
        option away from its default: tiles stored afterwards must not be affected by those options."""
        import argparse
        from toasty.image import ImageLoader
        from PIL import Image as PILImage

        src = os.path.join(d, "input.png")
        if not os.path.exists(src):
            a = np.zeros((12, 10, 3), dtype="u1")
            a[3:, 2:] = 90
            PILImage.fromarray(a).save(src)
        ns = argparse.Namespace(black_to_transparent=True, colorspace_processing="none", psd_single_layer=0, crop="1,2")
        loader = ImageLoader.create_from_args(ns)
        loader.load_path(src)

    def region_src():
        a = tile_arrays(mode)[1]
        return a[100:140, 30:80]

    def apply(pio, d, op, ref, hist):
        """Apply one op to the real directory and to the reference state; check; return new ref."""
        if op in ("write_A", "write_B", "write_partial", "write_undef", "write_inf"):
            arr = {"write_A": A, "write_B": B, "write_partial": partial, "write_undef": undef, "write_inf": None}[op]
            if op == "write_inf":
                if mode not in ("F32", "F64"):
                    return ref, False
                # every pixel non-finite, a few of them +-inf (defined): the tile is not all-undefined
                arr = np.full_like(A, np.nan)
                arr[3, 4] = np.inf
                arr[200:, 100] = -np.inf
            if arr is None:
                return ref, False
            pio.write_image(pos, Image.from_array(arr.copy()), **fk)
            newref = None if all_undefined(mode, arr) else arr
        elif op == "read_none":
            img = pio.read_image(pos, default="none", **fk)
            if ref is None:
                if img is not None:
                    bad("absent-tile-read-as-present", "read_image(default='none') returned an image for an absent tile", hist)
            else:
                if img is None:
                    bad("stored-tile-read-as-absent", "read_image returned None", hist)
                elif not same(np.asarray(img.asarray()), ref):
                    g = np.asarray(img.asarray())
                    bad("readback-differs", "shape/dtype %r/%s vs %r/%s, equal=%r" % (g.shape, g.dtype, ref.shape, ref.dtype, g.shape == ref.shape and np.array_equal(g, ref, equal_nan=ref.dtype.kind == "f")), hist)
                elif img.mode != (M if not (mode == "RGB" and ref.shape[-1] == 4) else ImageMode.RGBA):
                    bad("readback-mode", "mode %r" % (img.mode,), hist)
            newref = ref
        elif op == "read_masked":
            img = pio.read_image(pos, default="masked", masked_mode=M, **fk)
            g = np.asarray(img.asarray())
            if ref is None:
                shape, dt = buf_shape(mode, 256, 256)
                if g.shape != shape or g.dtype != np.dtype(dt) or not np.all(undefined_mask(mode, g, True)):
                    bad("masked-default-not-all-undefined", "default='masked' gave shape %r dtype %s with defined pixels=%d" % (g.shape, g.dtype, int((~undefined_mask(mode, g, True)).sum())), hist)
            elif not same(g, ref):
                bad("readback-differs", "default='masked' read differs from the stored tile", hist)
            newref = ref
        elif op == "write_undef_as_rgb":
            # the write_image(mode=...) option: an entirely transparent tile asked to be saved as RGB is still an
            # entirely undefined tile
            if mode != "RGBA" or fmt != "png":
                return ref, False
            pio.write_image(pos, Image.from_array(undef.copy()), mode=ImageMode.RGB, **fk)
            newref = None
        elif op == "update_clear":
            # an update whose body leaves the tile entirely undefined: nothing is stored and an earlier file goes
            if mode == "RGB" and ref is not None and ref.shape[-1] == 3:
                return ref, False
            shape, dt = buf_shape(mode, 256, 256)
            blank = np.zeros(shape, dtype=dt)
            if np.dtype(dt).kind == "f":
                blank[...] = np.nan
            with pio.update_image(pos, masked_mode=M, default="masked", **fk) as img:
                # (re-filled from an all-undefined source: Image.clear() itself refuses read-only PIL-backed tiles,
                # which is not what this operation is about)
                Image.from_array(blank).fill_into_maskable_buffer(img, slice(None), slice(None), slice(None), slice(None))
            newref = None
        elif op in ("update_identity", "update_region"):
            if mode == "RGB" and ref is not None and ref.shape[-1] == 3:
                # a stored 3-channel RGB tile is not a maskable buffer; updating it is outside the model
                return ref, False
            with pio.update_image(pos, masked_mode=M, default="masked", **fk) as img:
                if op == "update_region":
                    Image.from_array(region_src().copy()).update_into_maskable_buffer(img, slice(None), slice(None), region[0], region[1])
            if ref is None:
                shape, dt = buf_shape(mode, 256, 256)
                base = np.zeros(shape, dtype=dt)
                if np.dtype(dt).kind == "f":
                    base[...] = np.nan
            else:
                base = ref.copy()
                if mode == "RGB" and base.shape[-1] == 3:
                    base = None  # updating an RGB tile through an RGBA buffer is outside the model
            if base is None:
                return ref, False
            if op == "update_region":
                src = region_src()
                h, w = src.shape[:2]
                base = ref_update(mode, src, base, [y for y in range(h) for _ in range(w)], [x for _ in range(h) for x in range(w)], [100 + y for y in range(h) for _ in range(w)], [30 + x for _ in range(h) for x in range(w)])
            newref = None if all_undefined(mode, base) else base
        elif op == "stale_file":
            # a tile file left by an earlier run (written outside this PyramidIO object)
            p = pio.tile_path(pos, **fk)
            Image.from_array(B.copy()).save(p, format=fmt)
            newref = B
        else:
            raise ValueError(op)
        # after every step: the file exists iff the reference says so; other positions untouched
        p = pio.tile_path(pos, makedirs=False, **fk)
        exists = os.path.exists(p)
        if exists != (newref is not None):
            if newref is None:
                clause = "all-undefined-tile-stored" if op.startswith("write") or op.startswith("update") else "file-exists-but-reference-absent"
            else:
                clause = "tile-missing"
            bad(clause, "after %s the file %s although the reference state is %s" % (op, "exists" if exists else "does not exist", "absent" if newref is None else "present"), hist)
            # resynchronise the reference with the disk so that one defect does not cascade
            if exists:
                try:
                    newref = np.asarray(pio.read_image(pos, **fk).asarray())
                except Exception:
                    pass
            else:
                newref = None
        if os.path.exists(pio.tile_path(other, makedirs=False, **fk)):
            bad("other-position-touched", "a file appeared at %r" % (tuple(other),), hist)
        return newref, True

    def key(ref):
        return None if ref is None else (ref.shape, ref.dtype.str, hash(ref.tobytes()))

    with scratch("c15") as d:
        seen = {key(None): []}
        frontier = [[]]
        states = 1
        transitions = 0
        depth = 0
        while frontier and depth < maxdepth:
            nxt = []
            for hist in frontier:
                for op in OPS:
                    root = os.path.join(d, "t")
                    shutil.rmtree(root, ignore_errors=True)
                    pio = PyramidIO(root, scheme=scheme, default_format=default_format)
                    ref = None
                    try:
                        with quiet():
                            if prelude:
                                run_prelude(d)
                            for h in hist:
                                ref, _ = apply(pio, root, h, ref, hist)
                            # only the new step is judged (earlier steps were judged when first reached)
                            nv = len(part.violations)
                            ref2, applicable = apply(pio, root, op, ref, hist + [op])
                    except Exception as e:
                        bad("raises:%s/op=%s" % (type(e).__name__, op), repr(e), hist + [op])
                        continue
                    if not applicable:
                        continue
                    transitions += 1
                    part.case(nontrivial=len(hist) >= 1)
                    k = key(ref2)
                    if k not in seen:
                        seen[k] = hist + [op]
                        nxt.append(hist + [op])
                        states += 1
            frontier = nxt
            depth += 1
        part.states += states
        part.transitions += transitions
        part.executions += transitions
        part.count("persistence_configurations")
    part.sample({"mode": mode, "format": fmt, "scheme": scheme, "explicit_format": bool(explicit), "example_history": max(seen.values(), key=len)})
    return part


def aliasing_job(job):
    """Two missing tiles read with default='masked', or two nested update_image blocks, must be
    independent buffers: defining pixels in one must not show up in the other."""
    from toasty.image import Image, ImageMode
    from toasty.pyramid import PyramidIO, Pos

    mode, fmt = job
    part = Part()
    M = ImageMode[mode]
    A, B, _p, _u = tile_arrays(mode)
    pa, pb = Pos(1, 0, 0), Pos(1, 1, 1)
    cfg = {"mode": mode, "format": fmt, "aliasing": True}

    def bad(clause, detail):
        part.violation("persistence/%s/mode=%s/format=%s" % (clause, mode, fmt), "%r: %s" % (cfg, detail), cfg)

    with scratch("c15a") as d:
        pio = PyramidIO(os.path.join(d, "t"), default_format=fmt)
        part.case(nontrivial=True)
        try:
            with quiet():
                a = pio.read_image(pa, default="masked", masked_mode=M)
                b = pio.read_image(pb, default="masked", masked_mode=M)
                src = Image.from_array(B[:40, :50].copy())
                src.update_into_maskable_buffer(a, slice(None), slice(None), slice(10, 50), slice(20, 70))
                if not np.all(undefined_mask(mode, np.asarray(b.asarray()), True)):
                    bad("masked-default-buffers-aliased", "defining pixels in the buffer read for %r changed the buffer read for %r" % (tuple(pa), tuple(pb)))
                c = pio.read_image(pb, default="masked", masked_mode=M)
                if np.all(undefined_mask(mode, np.asarray(a.asarray()), True)) and mode != "RGB":
                    bad("masked-default-buffers-aliased", "a later masked read wiped the buffer the caller still holds")
                # nested read-modify-write blocks on two positions
                part.case(nontrivial=True)
                with pio.update_image(pa, masked_mode=M, default="masked") as ia:
                    with pio.update_image(pb, masked_mode=M, default="masked") as ib:
                        Image.from_array(B[:30, :30].copy()).update_into_maskable_buffer(ib, slice(None), slice(None), slice(200, 230), slice(200, 230))
                    Image.from_array(A[:20, :20].copy()).update_into_maskable_buffer(ia, slice(None), slice(None), slice(0, 20), slice(0, 20))
                ra = np.asarray(pio.read_image(pa).asarray())
                rb = np.asarray(pio.read_image(pb).asarray())
                da = ~undefined_mask(mode, ra, True)
                db = ~undefined_mask(mode, rb, True)
                wa = np.zeros((256, 256), bool)
                wa[0:20, 0:20] = True
                wb = np.zeros((256, 256), bool)
                wb[200:230, 200:230] = True
                if mode != "RGB" and (not np.array_equal(da, wa) or not np.array_equal(db, wb)):
                    bad("nested-updates-leak", "after nested update_image blocks the tiles define %d and %d pixels outside their addressed rectangles" % (int((da & ~wa).sum()), int((db & ~wb).sum())))
        except Exception as e:
            bad("raises:%s/op=aliasing" % type(e).__name__, repr(e))
    part.sample(cfg)
    return part


def held_object_job(job):
    """ONE Image object kept by the caller across a history: written, changed in place (clear(), a fill from another
    image), looked at as a PIL image (what making a thumbnail does), written again ...  After every write the tile
    read back is the image as it is at that moment (absent if it is entirely undefined then).  Every sequence of
    the alphabet up to the given length that ends in a write is run on a fresh object and a fresh directory."""
    from toasty.image import Image, ImageMode
    from toasty.pyramid import PyramidIO, Pos

    mode, fmt, depth = job
    part = Part()
    M = ImageMode[mode]
    A, B, _partial, _undef = tile_arrays(mode)
    pos = Pos(1, 0, 1)
    ops = ["write", "clear"] + (["fill_B", "fill_A_part", "update_B_part"] if mode != "RGB" else []) + (["aspil"] if mode in ("RGB", "RGBA") else ["asarray"])
    seqs = []
    for n in range(1, depth + 1):
        for t in itertools.product(ops, repeat=n):
            if t[-1] == "write" and any(o != "write" for o in t):
                seqs.append(t)
    with scratch("c15h") as d:
        for t in seqs:
            hist = list(t)
            cfg = {"mode": mode, "format": fmt, "held_object_history": hist}
            root = os.path.join(d, "t")
            shutil.rmtree(root, ignore_errors=True)
            pio = PyramidIO(root, default_format=fmt)
            held = Image.from_array(A.copy())
            ref = A.copy()
            part.case(nontrivial=True)
            part.executions += 1
            try:
                with quiet():
                    for k, op in enumerate(hist):
                        if op == "clear":
                            held.clear()
                            ref = np.zeros_like(ref) if ref.dtype.kind != "f" else np.full_like(ref, np.nan)
                        elif op == "fill_B":
                            Image.from_array(B.copy()).fill_into_maskable_buffer(held, slice(None), slice(None), slice(None), slice(None))
                            ref = B.copy()
                        elif op == "fill_A_part":
                            Image.from_array(A[:64, :32].copy()).fill_into_maskable_buffer(held, slice(None), slice(None), slice(10, 74), slice(5, 37))
                            # (a fill leaves everything outside the addressed rectangle undefined)
                            ref = np.zeros_like(ref) if ref.dtype.kind != "f" else np.full_like(ref, np.nan)
                            ref[10:74, 5:37] = A[:64, :32]
                        elif op == "update_B_part":
                            Image.from_array(B[:64, :32].copy()).update_into_maskable_buffer(held, slice(None), slice(None), slice(100, 164), slice(50, 82))
                            ref = ref.copy()
                            ref[100:164, 50:82] = B[:64, :32]
                        elif op == "aspil":
                            held.aspil()
                        elif op == "asarray":
                            held.asarray()
                        else:
                            pio.write_image(pos, held)
                            want = None if all_undefined(mode, ref) else ref
                            got = pio.read_image(pos, default="none")
                            if want is None:
                                if got is not None:
                                    part.violation("persistence/held-object/all-undefined-tile-stored/mode=%s/format=%s" % (mode, fmt), "%r: step %d: the image is entirely undefined when written, yet a tile is stored" % (cfg, k), cfg)
                                    break
                            elif got is None:
                                part.violation("persistence/held-object/tile-missing/mode=%s/format=%s" % (mode, fmt), "%r: step %d: no tile after writing a partly defined image" % (cfg, k), cfg)
                                break
                            elif not same(np.asarray(got.asarray()), want):
                                g = np.asarray(got.asarray())
                                nd = int((g != want).sum()) if g.shape == want.shape else -1
                                part.violation("persistence/held-object/readback-differs/mode=%s/format=%s" % (mode, fmt), "%r: step %d: the tile read back is not the image as it was when written (%d differing values): an earlier state of the object was stored" % (cfg, k, nd), cfg)
                                break
            except Exception as e:
                part.violation("persistence/held-object/raises:%s/mode=%s/format=%s" % (type(e).__name__, mode, fmt), "%r: %r" % (cfg, e), cfg)
    part.count("held_object_histories", len(seqs))
    part.sample({"mode": mode, "format": fmt, "held_object_history": list(seqs[-1])})
    return part


def _job(j):
    if j[0] == "leafwrites":
        from vt import stages

        return stages.explore_to_part(j[1], PROP)
    if j[0] == "held":
        return held_object_job(j[1:])
    if j[0] == "bufhist":
        return buffer_history_job(j[1], j[2])
    if j[0] == "aliasing":
        return aliasing_job(j[1:])
    if j[0] == "buffers":
        return buffers_job(*j[1:])
    return persistence_job(j[1:])


def run(tier, seed):
    rep = Report(PROP, tier, seed, "model_checking")
    maxdepth = 3 if tier == "quick" else 4
    rep.rule = (
        "A: mode x indexer kind x all 2^6 source x 2^6 destination defined/undefined patterns (fill, update, clear, is_completely_masked); every sequence of up to %d "
        "operations {clear, fill defined/undefined, update partly defined/undefined} on ONE buffer object with is_completely_masked and write_image judged after each step. "
        "B: breadth-first search over operation histories (12-op alphabet) to depth %d on a PyramidIO directory per (mode, format, scheme), "
        "states = distinct reference tile states, deduplicated; transitions = (state, op) steps executed on the real directory. "
        "C: every sequence up to that length + 1 of {write, clear, fill, partial fill, view as PIL / array} on ONE caller-held Image object (colour and floating-point modes), the tile read back after every write. "
        "D: stateful exploration of every interleaving of 2-3 worker processes of one visit_leaves call storing defined and entirely undefined tiles of one pyramid (tile reads/writes, removals and file creations are scheduling points)"
    ) % (maxdepth, maxdepth)
    rep.assumptions = [
        "format capability table fixed from the formats' definitions: npy all modes; FITS all but F16x3 (and RGB/RGBA); PNG RGB/RGBA only",
        "integer-array (pointwise) indexers are checked for fill only (what the chunked sampler uses); update through them is not a rectangle and is outside the statement",
    ]
    jobs = [("buffers", m) for m in MODES]
    jobs += [("bufhist", m, 3 if tier == "quick" else 4) for m in MODES]
    if tier == "thorough":
        # all 2^9 x 2^9 patterns on a 3x3 buffer (full and reversed-row indexers)
        jobs += [("buffers", m, 3, 3) for m in MODES]
    for m in MODES:
        for f in FORMATS[m]:
            for scheme in ("L/Y/YX", "LXY"):
                jobs.append(("persist", m, f, scheme, maxdepth))
            # the same histories with an explicit format= differing from the pyramid's default
            jobs.append(("persist", m, f, "L/Y/YX" if (len(m) + len(f)) % 2 else "LXY", maxdepth, True))
    for m in ("RGB", "RGBA"):
        jobs.append(("persist", m, "png", "L/Y/YX", maxdepth, False, True))
    for m in MODES:
        if m != "RGB":
            jobs.append(("aliasing", m, "npy"))
    for m in ("RGB", "RGBA", "F32", "F64", "F16x3"):
        for f in FORMATS[m]:
            jobs.append(("held", m, f, 4 if tier == "quick" else 5))
    # D: across processes - workers of one visit_leaves call storing the tiles of one pyramid, some entirely undefined
    # (every interleaving of their tile I/O, removals and file creations)
    from vt import stages

    lw = [
        stages.LeafWrites(W=2, masked=((1, 1, 0),), seed=seed),
        stages.LeafWrites(W=2, masked=((1, 1, 0), (1, 0, 1)), stale=((1, 1, 0),), seed=seed),
        stages.LeafWrites(W=2, masked=((1, 0, 0), (1, 1, 0)), scheme="LXY", fmt="npy", seed=seed),
    ]
    if tier == "thorough":
        lw += [stages.LeafWrites(W=3, masked=((1, 1, 0), (1, 1, 1)), seed=seed), stages.LeafWrites(W=2, depth=2, masked=((2, 1, 0), (2, 2, 0), (2, 0, 3)), max_deviations=3, seed=seed)]
    jobs += [("leafwrites", c) for c in lw]
    jobs = rng_order(jobs, seed)
    par.pmap(_job, jobs, rep)
    return rep.finish()


def replay(payload):
    r = payload["replay"]
    if "harness" in r:
        from vt import stages

        return stages.replay(payload)
    if r.get("aliasing"):
        p = aliasing_job((r["mode"], r["format"]))
    elif "held_object_history" in r:
        p = held_object_job((r["mode"], r["format"], max(2, len(r["held_object_history"]))))
    elif "one_buffer_history" in r:
        p = buffer_history_job(r["mode"], max(1, len(r["one_buffer_history"])))
    elif "history" in r:
        p = persistence_job((r["mode"], r["format"], r["scheme"], max(1, len(r["history"])), r.get("explicit_format", False), bool(r.get("prelude"))))
    else:
        p = buffers_job(r["mode"])
    for sig, (detail, _) in p.violations.items():
        print("REPLAY-FAIL", sig, detail[:300])
    return 1 if p.violations else 0
