"""C18 -- publishing is crash-safe: index.wtml reaches the store only after all else.

Fault enumeration on the real `PipelineManager.publish` with a fault-injecting store:
every file set (with/without index.wtml), every order in which os.listdir can return it,
a crash at every transfer in three torn-write modes, a crash before the rename, and no
crash; then recovery by re-running publish; plus the real refresh step.
"""
import argparse
import itertools
import os
import shutil

from vt import par
from vt.fixtures import scratch, quiet, rng_order
from vt.harness import Part, Report

PROP = "C18"

NAMES = ["index.wtml", "thumb.jpg", "L0X0Y0.png", "L1X1Y0.png", "zz_extra.txt", "aa_first.bin", "index_rel.wtml"]


class InjectedCrash(BaseException):
    """Process death at a chosen point: not an Exception, so no `except Exception:` in the code under test
    can 'handle' it (a dead process handles nothing)."""


class InjectedTransferError(OSError):
    """A transfer that fails with an error the code under test may see and react to (connection reset)."""


def content(uid, name):
    if name == "zz_extra.txt":
        return b""  # a zero-length file (an empty credits / notes file) is a file like any other
    return ("%s/%s:" % (uid, name)).encode() * 7 + b"END"


class FaultyStore(object):
    """Wraps the real LocalPipelineIo; crashes at the k-th put_item in a given mode."""

    def __init__(self, inner, crash_at=None, mode=None):
        self.inner = inner
        self.crash_at = crash_at
        self.mode = mode
        self.n = 0
        self.log = []

    def __getattr__(self, name):
        return getattr(self.inner, name)

    def put_item(self, *path, source=None):
        self.n += 1
        self.log.append(tuple(path))
        if self.crash_at is not None and self.n == self.crash_at:
            boom = (lambda m: InjectedTransferError(104, m)) if self.mode.startswith("error") else InjectedCrash
            if self.mode in ("before", "error-before"):
                raise boom("failure before transfer %d" % self.n)
            if self.mode in ("partial", "error-partial"):
                import io

                # a transfer that dies half way: only the first half of the source has been read
                try:
                    size = os.fstat(source.fileno()).st_size
                    data = source.read(size // 2)
                except (AttributeError, OSError):
                    data = source.read()
                    data = data[: len(data) // 2]
                self.inner.put_item(*path, source=io.BytesIO(data))
                raise boom("failure during transfer %d" % self.n)
            data = source.read()
            if self.mode == "after":
                import io

                self.inner.put_item(*path, source=io.BytesIO(data))
                raise InjectedCrash("crash after transfer %d" % self.n)
        return self.inner.put_item(*path, source=source)


def setup_work(d, images):
    """images: dict uid -> list of file names. Returns (workdir, storedir)."""
    from toasty.pipeline.local_io import LocalPipelineIo

    work = os.path.join(d, "work")
    store = os.path.join(d, "store")
    shutil.rmtree(work, ignore_errors=True)
    shutil.rmtree(store, ignore_errors=True)
    os.makedirs(store)
    os.makedirs(os.path.join(work, "approved"))
    LocalPipelineIo(store).save_config(os.path.join(work, "toasty-store-config.yaml"))
    for uid, names in images.items():
        os.makedirs(os.path.join(work, "approved", uid))
        for n in names:
            with open(os.path.join(work, "approved", uid, n), "wb") as f:
                f.write(content(uid, n))
    return work, store


class ListdirOrder(object):
    """Controls the order in which os.listdir reports chosen directories."""

    def __init__(self, orders):
        self.orders = orders  # realpath -> list of names
        self.real = os.listdir

    def __enter__(self):
        real = self.real
        orders = self.orders

        def listdir(path="."):
            got = real(path)
            o = orders.get(os.path.realpath(path)) if isinstance(path, str) else None
            if o is not None:
                assert sorted(o) == sorted(got), (o, got)
                return list(o)
            return got

        os.listdir = listdir
        return self

    def __exit__(self, *a):
        os.listdir = self.real


class RenameCrash(object):
    def __init__(self, active):
        self.active = active
        self.real = os.rename

    def __enter__(self):
        if self.active:
            def rename(src, dst, *a, **k):
                if os.sep + "approved" + os.sep in src:
                    raise InjectedCrash("crash before the move to published/")
                return self.real(src, dst, *a, **k)

            os.rename = rename
        return self

    def __exit__(self, *a):
        os.rename = self.real


def store_state(store, uid, names):
    """-> dict name -> 'complete' | 'partial' | 'absent' """
    out = {}
    for n in names:
        p = os.path.join(store, uid, n)
        if not os.path.exists(p):
            out[n] = "absent"
        else:
            with open(p, "rb") as f:
                out[n] = "complete" if f.read() == content(uid, n) else "partial"
    return out


def run_case(d, images, id_order, file_orders, crash_at, mode, rename_crash, part):
    """One publish run with an injected crash, invariant check, then recovery."""
    from toasty.pipeline import PipelineManager

    cfg = {"images": images, "id_order": id_order, "file_orders": file_orders, "crash_at": crash_at, "mode": mode, "rename_crash": rename_crash}
    has_index = any("index.wtml" in v for v in images.values())
    part.case(nontrivial=(crash_at is not None or rename_crash) and has_index)

    def bad(clause, detail):
        sig = "%s/mode=%s" % (clause, mode if crash_at else ("rename" if rename_crash else "none"))
        part.violation(sig, "%r: %s" % (cfg, detail), cfg)

    work, store = setup_work(d, images)
    mgr = PipelineManager(work)
    fs = FaultyStore(mgr._pipeio, crash_at, mode)
    mgr._pipeio = fs
    orders = {os.path.realpath(os.path.join(work, "approved")): list(id_order)}
    for uid, o in file_orders.items():
        orders[os.path.realpath(os.path.join(work, "approved", uid))] = list(o)
    crashed = False
    try:
        with quiet(), ListdirOrder(orders), RenameCrash(rename_crash):
            mgr.publish()
    except InjectedCrash:
        crashed = True
    except Exception as e:
        if not (mode or "").startswith("error"):
            bad("publish-raises:%s" % type(e).__name__, repr(e))
            return
        crashed = True  # a failed transfer reported in whatever form; what counts is the state left behind
    expect_crash = rename_crash or (crash_at is not None and crash_at <= sum(len(v) for v in images.values()))
    if crashed != bool(expect_crash) and not (mode or "").startswith("error"):
        bad("crash-not-reached", "crashed=%r expected %r (transfers made: %d)" % (crashed, expect_crash, fs.n))
    # transfer order: index.wtml strictly last among the files of its image
    per = {}
    for path in fs.log:
        per.setdefault(path[0], []).append(path[1])
    for uid, seq in per.items():
        if "index.wtml" in seq and seq.index("index.wtml") != len(images[uid]) - 1:
            bad("index-not-last", "transfer order for %s: %r" % (uid, seq))
        if len(set(seq)) != len(seq):
            bad("file-transferred-twice", "transfer order for %s: %r" % (uid, seq))
    # store invariant after the crash
    for uid, names in images.items():
        st = store_state(store, uid, names)
        others_ok = all(v == "complete" for n, v in st.items() if n != "index.wtml")
        if "index.wtml" in names and st["index.wtml"] != "absent" and not others_ok:
            bad("index-present-while-incomplete", "store state for %s: %r" % (uid, st))
        if "index.wtml" in names and mgr._pipeio.check_exists(uid, "index.wtml") and not others_ok:
            bad("refresh-would-skip-partial-image", "check_exists(index.wtml) true with store state %r" % (st,))
        in_appr = os.path.isdir(os.path.join(work, "approved", uid))
        in_pub = os.path.isdir(os.path.join(work, "published", uid))
        all_ok = all(v == "complete" for v in st.values())
        if in_pub and not all_ok:
            bad("moved-to-published-while-incomplete", "%s is under published/ with store state %r" % (uid, st))
        if in_pub == in_appr:
            bad("approved-published-inconsistent", "%s: approved=%r published=%r" % (uid, in_appr, in_pub))
    # recovery: re-run publish without faults - on the same manager object (a long-lived session retrying)
    # for every other case, on a fresh one (a new command invocation) otherwise
    if (fs.n + len(id_order)) % 2 == 0:
        mgr2 = mgr
        mgr._pipeio = fs.inner
        cfg["recovery"] = "same-manager"
    else:
        mgr2 = PipelineManager(work)
        cfg["recovery"] = "fresh-manager"
    try:
        with quiet():
            mgr2.publish()
    except Exception as e:
        bad("recovery-raises:%s" % type(e).__name__, repr(e))
        return
    for uid, names in images.items():
        st = store_state(store, uid, names)
        if not all(v == "complete" for v in st.values()):
            bad("recovery-incomplete", "after re-running publish the store has %r for %s" % (st, uid))
        if os.path.isdir(os.path.join(work, "approved", uid)) or not os.path.isdir(os.path.join(work, "published", uid)):
            bad("recovery-not-moved", "%s not moved to published/ by the re-run" % uid)


class CopyFault(object):
    """The k-th copy performed *inside* the local store fails with an OSError after writing half of
    the data (disk full, I/O error): a failure the store itself sees, not one around it."""

    def __init__(self, k, errno_):
        self.k = k
        self.errno = errno_
        self.n = 0

    def __enter__(self):
        import shutil as _sh
        from toasty.pipeline import local_io

        self.mod = local_io
        self.real = local_io.shutil.copyfileobj
        outer = self

        def copyfileobj(src, dst, *a, **kw):
            outer.n += 1
            if outer.n == outer.k:
                data = src.read()
                dst.write(data[: len(data) // 2])
                if outer.errno is None:
                    raise InjectedCrash("process dies half way through a copy inside the store")
                raise OSError(outer.errno, os.strerror(outer.errno))
            return outer.real(src, dst, *a, **kw)

        class _Shim(object):
            def __getattr__(self, name):
                return getattr(_sh, name)

        shim = _Shim()
        shim.copyfileobj = copyfileobj
        self.saved = local_io.shutil
        local_io.shutil = shim
        return self

    def __exit__(self, *a):
        self.mod.shutil = self.saved


def store_fault_cases(part):
    """An OSError inside the store's copy must make publish fail visibly, and never leave an
    index.wtml next to missing or torn files."""
    from toasty.pipeline import PipelineManager

    names = NAMES[:4]
    with scratch("c18s") as d:
        for order in itertools.permutations(names):
            for k in range(1, len(names) + 1):
                for en in (28, 5, None):  # ENOSPC, EIO, or the process dying at that point (None)
                    cfg = {"store_fault": True, "listdir_order": list(order), "copy": k, "errno": en}
                    part.case(nontrivial=True)
                    work, store = setup_work(d, {"img1": list(names)})
                    mgr = PipelineManager(work)
                    raised = False
                    try:
                        with quiet(), ListdirOrder({os.path.realpath(os.path.join(work, "approved", "img1")): list(order)}), CopyFault(k, en):
                            mgr.publish()
                    except OSError:
                        raised = True
                    except Exception:
                        raised = True
                    except InjectedCrash:
                        raised = True
                    st = store_state(store, "img1", names)
                    others_ok = all(v == "complete" for n, v in st.items() if n != "index.wtml")
                    if st["index.wtml"] != "absent" and not others_ok:
                        part.violation("index-present-while-incomplete/mode=store-oserror", "%r: store state %r" % (cfg, st), cfg)
                    if not raised and not all(v == "complete" for v in st.values()):
                        part.violation("publish-succeeds-with-incomplete-store/mode=store-oserror", "%r: publish returned normally although a copy inside the store failed; store state %r" % (cfg, st), cfg)
                    if os.path.isdir(os.path.join(work, "published", "img1")) and not all(v == "complete" for v in st.values()):
                        part.violation("moved-to-published-while-incomplete/mode=store-oserror", "%r: %r" % (cfg, st), cfg)
                    # whatever the failure left in the store (torn files, temporaries), re-running publish completes the job
                    try:
                        with quiet():
                            PipelineManager(work).publish()
                        st2 = store_state(store, "img1", names)
                        if not all(v == "complete" for v in st2.values()) or not os.path.isdir(os.path.join(work, "published", "img1")):
                            part.violation("recovery-incomplete/mode=%s" % ("store-death" if en is None else "store-oserror"), "%r: after re-running publish the store has %r" % (cfg, st2), cfg)
                    except Exception as e:
                        part.violation("recovery-raises:%s/mode=%s" % (type(e).__name__, "store-death" if en is None else "store-oserror"), "%r: re-running publish after the failure raised %r" % (cfg, e), cfg)


def gen_cases(tier):
    nmax = 5 if tier == "quick" else 7
    cases = []
    for n in range(1, nmax + 1):
        for with_index in (True, False):
            names = (NAMES[:n]) if with_index else NAMES[1 : n + 1]
            for perm in itertools.permutations(names):
                faults = [(None, None, False), (None, None, True)]
                for k in range(1, n + 1):
                    for mode in ("before", "partial", "after", "error-before", "error-partial"):
                        faults.append((k, mode, False))
                for crash_at, mode, rc in faults:
                    cases.append(({"img1": list(names)}, ["img1"], {"img1": list(perm)}, crash_at, mode, rc))
    # two approved images, both orders, crash at every transfer
    a, b = NAMES[:3], [NAMES[0], NAMES[2]]
    perms_a = list(itertools.permutations(a)) if tier == "thorough" else [tuple(a), (a[0], a[2], a[1]), (a[1], a[0], a[2])]
    for ido in (["imgA", "imgB"], ["imgB", "imgA"]):
        for pa in perms_a:
            for pb in itertools.permutations(b):
                faults = [(None, None, False), (None, None, True)]
                for k in range(1, len(a) + len(b) + 1):
                    for mode in ("before", "partial", "after", "error-partial"):
                        faults.append((k, mode, False))
                for crash_at, mode, rc in faults:
                    cases.append(({"imgA": list(a), "imgB": list(b)}, ido, {"imgA": list(pa), "imgB": list(pb)}, crash_at, mode, rc))
    return cases


def _work(chunk):
    part = Part()
    with scratch("c18") as d:
        for i, c in enumerate(chunk):
            run_case(d, *c, part=part)
            if i in (3, 77):
                part.sample({"images": c[0], "id_order": c[1], "listdir_order": c[2], "crash_at_transfer": c[3], "mode": c[4], "crash_before_rename": c[5]})
    return part


# --- refresh: a partially published image is never skipped -----------------------------------


def refresh_check(part):
    from toasty import pipeline
    from toasty.pipeline import PipelineManager, ImageSource, CandidateInput
    from toasty.pipeline.cli import refresh_impl
    from toasty.pipeline.local_io import LocalPipelineIo

    class Cand(CandidateInput):
        def __init__(self, uid):
            self.uid = uid

        def get_unique_id(self):
            return self.uid

        def save(self, stream):
            stream.write(b"candidate " + self.uid.encode())

    class Src(ImageSource):
        @classmethod
        def get_config_key(cls):
            return "verif_local"

        @classmethod
        def deserialize(cls, data):
            return cls()

        def query_candidates(self):
            yield Cand("img1")

        def fetch_candidate(self, *a):
            pass

        def process(self, *a):
            pass

    pipeline.IMAGE_SOURCE_CLASS_LOADERS["_verif_local"] = lambda: Src
    # a realistic file set: both index files, the thumbnail and a tile
    names = ["index.wtml", "index_rel.wtml", "thumb.jpg", "L0X0Y0.png"]
    combos = [(None, None)] + [(k, m) for k in range(1, len(names) + 1) for m in ("before", "partial", "after", "error-partial")]
    with scratch("c18r") as d:
        for order in itertools.permutations(names):
          for crash_at, mode in combos:
            part.case(nontrivial=crash_at is not None)
            part.count("refresh_runs")
            cfg = {"refresh": True, "crash_at": crash_at, "mode": mode, "listdir_order": list(order)}
            work, store = setup_work(d, {"img1": names})
            with open(os.path.join(store, "toasty-pipeline-config.yaml"), "w") as f:
                f.write("source_type: _verif_local\nverif_local:\n  x: 1\n")
            mgr = PipelineManager(work)
            mgr._pipeio = FaultyStore(mgr._pipeio, crash_at, mode)
            try:
                with quiet(), ListdirOrder({os.path.realpath(os.path.join(work, "approved", "img1")): list(order)}):
                    mgr.publish()
            except InjectedCrash:
                pass
            except Exception as e:
                if crash_at is None:
                    part.violation("refresh/publish-raises:%s" % type(e).__name__, "%r: %r" % (cfg, e), cfg)
                    continue
            st = store_state(store, "img1", names)
            complete = all(v == "complete" for v in st.values())
            # the property protects the *other* files: a torn index.wtml itself (everything else
            # complete) is outside what "index last" can promise, and re-running publish repairs it
            others_ok = all(v == "complete" for n, v in st.items() if n != "index.wtml")
            with quiet():
                refresh_impl(argparse.Namespace(workdir=work))
            saved = os.path.exists(os.path.join(work, "candidates", "img1"))
            if not others_ok and not saved:
                part.violation("refresh-skips-partially-published-image", "%r: store %r but refresh treated the image as done" % (cfg, st), cfg)
            if complete and crash_at is None and saved:
                part.violation("refresh-reprocesses-published-image", "%r: fully published image was saved as a candidate again" % (cfg,), cfg)


def run(tier, seed):
    rep = Report(PROP, tier, seed, "fault_enumeration")
    rep.rule = (
        "every file set of size 1..%d (with/without index.wtml) x every listdir permutation x {no crash, crash before rename, crash at "
        "transfer k in modes before/partial/after (process death: not catchable) or error-before/error-partial (a transfer error the code may catch)}; two approved images in both id orders; each followed by a fault-free re-run; "
        "non-trivial = a crash was injected and the image has an index.wtml" % (5 if tier == "quick" else 7)
    )
    rep.assumptions = [
        "a crash is a BaseException out of put_item / os.rename standing for process death; a transfer error is an OSError out of put_item; the store is LocalPipelineIo on a scratch directory",
        "torn write = a strict prefix (half) of the file's bytes",
    ]
    cases = rng_order(gen_cases(tier), seed)
    n = par.ncores() * 2
    par.pmap(_work, [cases[i::n] for i in range(n)], rep)
    refresh_check(rep)
    store_fault_cases(rep)
    return rep.finish()


def replay(payload):
    r = payload["replay"]
    part = Part()
    if r.get("store_fault"):
        store_fault_cases(part)
    elif r.get("refresh"):
        refresh_check(part)
    else:
        with scratch("c18p") as d:
            run_case(d, r["images"], r["id_order"], r["file_orders"], r["crash_at"], r["mode"], r["rename_crash"], part)
    for sig, (detail, _) in part.violations.items():
        print("REPLAY-FAIL", sig, detail)
    return 1 if part.violations else 0
