"""C04 -- TOAST tiles partition the sphere, nest exactly, and are route-independent.

Every tile position to a depth bound (plus a deterministic deep lattice), both coordinate
systems, all four construction routes (full enumeration, filtered enumeration, single-tile
construction, point lookup), against the 3-D reference subdivision.
"""
import numpy as np

from vt import par
from vt.fixtures import quiet
from vt.harness import Part, Report
from vt.ref import toastgeom as tg

PROP = "C04"


def tvec(t):
    return tg.vec(np.array([float(q[0]) for q in t.corners]), np.array([float(q[1]) for q in t.corners]))


def cs_of(planetary):
    from toasty.toast import ToastCoordinateSystem as T

    return T.PLANETARY if planetary else T.ASTRONOMICAL


def full_levels(job):
    """Full enumeration to depth D: geometry vs reference, nesting, neighbours, areas."""
    from toasty import toast

    D, planetary = job
    part = Part()
    csn = "planetary" if planetary else "astronomical"
    cs = cs_of(planetary)
    got = {}
    for t in toast.generate_tiles(D, bottom_only=False, coordsys=cs):
        got[tuple(t.pos)] = t
    areas = {n: 0.0 for n in range(1, D + 1)}

    def bad(clause, detail, cfg):
        part.violation("%s/coordsys=%s" % (clause, csn), "%r: %s" % (cfg, detail), cfg)

    for n in range(1, D + 1):
        c, inc = tg.tiles_at(n, planetary)
        side = 2**n
        ref_area = tg.tile_area(c, inc)
        V = np.empty((side, side, 4, 3))
        for y in range(side):
            for x in range(side):
                t = got.get((n, x, y))
                cfg = {"pos": (n, x, y), "coordsys": csn, "route": "generate_tiles"}
                part.case(nontrivial=True)
                if t is None:
                    bad("enumeration/missing-tile", "generate_tiles did not yield this position", cfg)
                    V[y, x] = c[y, x]
                    continue
                v = tvec(t)
                V[y, x] = v
                if tg.angdist(v, c[y, x]).max() > 1e-9:
                    bad("layout/corners-differ-from-reference", "corner offsets %r rad" % (tg.angdist(v, c[y, x]).tolist(),), cfg)
                if bool(t.increasing) != bool(inc[y, x]):
                    bad("layout/diagonal-orientation", "increasing=%r, reference %r" % (t.increasing, bool(inc[y, x])), cfg)
                if n <= 6:
                    a = float(toast.toast_tile_area(t))
                    areas[n] += a
                    if abs(a - ref_area[y, x]) > 1e-9 * max(ref_area[y, x], 1e-6) + 1e-13:
                        bad("area/tile-area-differs", "toast_tile_area=%.15g reference %.15g" % (a, ref_area[y, x]), cfg)
        if n <= 6 and abs(areas[n] - 4 * np.pi) > 1e-9 * 4 * np.pi:
            bad("area/level-sum", "tile areas at level %d sum to %.15g, sphere is %.15g" % (n, areas[n], 4 * np.pi), {"level": n, "coordsys": csn})
        # neighbours share edge end-points (as yielded by toasty)
        e = tg.angdist(V[:, :-1, 1], V[:, 1:, 0]).max() if side > 1 else 0.0
        e = max(e, tg.angdist(V[:, :-1, 2], V[:, 1:, 3]).max() if side > 1 else 0.0)
        e = max(e, tg.angdist(V[:-1, :, 3], V[1:, :, 0]).max() if side > 1 else 0.0)
        e = max(e, tg.angdist(V[:-1, :, 2], V[1:, :, 1]).max() if side > 1 else 0.0)
        if e > 1e-12:
            bad("neighbours/edge-endpoints-differ", "adjacent tiles at level %d disagree on a shared corner by %.3g rad" % (n, e), {"level": n, "coordsys": csn})
        # children tile their parent: shared corners and edge midpoints, areas
        if n >= 2:
            cp, ip = tg.tiles_at(n - 1, planetary)
            P = np.empty((side // 2, side // 2, 4, 3))
            for y in range(side // 2):
                for x in range(side // 2):
                    P[y, x] = tvec(got[(n - 1, x, y)]) if (n - 1, x, y) in got else cp[y, x]
            dd = max(
                tg.angdist(V[0::2, 0::2, 0], P[..., 0, :]).max(),
                tg.angdist(V[0::2, 1::2, 1], P[..., 1, :]).max(),
                tg.angdist(V[1::2, 1::2, 2], P[..., 2, :]).max(),
                tg.angdist(V[1::2, 0::2, 3], P[..., 3, :]).max(),
                tg.angdist(V[0::2, 0::2, 1], tg.mid(P[..., 0, :], P[..., 1, :])).max(),
                tg.angdist(V[1::2, 1::2, 3], tg.mid(P[..., 2, :], P[..., 3, :])).max(),
                tg.angdist(V[0::2, 0::2, 3], tg.mid(P[..., 3, :], P[..., 0, :])).max(),
                tg.angdist(V[0::2, 1::2, 2], tg.mid(P[..., 1, :], P[..., 2, :])).max(),
            )
            if dd > 1e-12:
                bad("nesting/children-do-not-tile-parent", "children at level %d miss their parent's corners/edge midpoints by %.3g rad" % (n, dd), {"level": n, "coordsys": csn})
            ca = tg.tile_area(V, np.repeat(np.repeat(ip, 2, 0), 2, 1))
            pa = tg.tile_area(P, ip)
            s4 = ca[0::2, 0::2] + ca[0::2, 1::2] + ca[1::2, 0::2] + ca[1::2, 1::2]
            if np.abs(s4 - pa).max() > 1e-9 * pa.max():
                bad("nesting/child-areas", "children's areas do not sum to the parent's at level %d" % n, {"level": n, "coordsys": csn})
    part.sample({"route": "generate_tiles", "depth": D, "coordsys": csn, "tiles": len(got)})
    return part


def lattice(nmax):
    out = []
    for n in range(1, nmax + 1):
        side = 2**n
        vals = sorted(set(v for v in (0, 1, side // 2 - 1, side // 2, side - 2, side - 1) if 0 <= v < side))
        for y in vals:
            for x in vals:
                out.append((n, x, y))
    return out


QUERY = [None]


def _library_filter():
    from astropy.wcs import WCS
    from toasty.samplers import WcsSampler

    fw = WCS(naxis=2)
    fw.wcs.ctype = ["RA---TAN", "DEC--TAN"]
    fw.wcs.crval = [40.0, 10.0]
    fw.wcs.cdelt = [-2.0, 2.0]
    fw.wcs.crpix = [20.5, 20.5]
    return WcsSampler(np.ones((40, 40), dtype=np.float32), fw).filter()


def _within_rounding(pos, q, n, planetary):
    """'Up to rounding on shared edges' for deep tiles (section 9.3): a side of length w between two unit vectors in
    double precision is resolved to about 8 ulp / w radians; a lookup that answers with another tile of the same
    depth is right if the point lies within that distance (plus a thousandth of a tile) of the tile it names."""
    if pos[0] != n or not (0 <= pos[1] < 2**n and 0 <= pos[2] < 2**n):
        return False
    w = (np.pi / 2) / 2**n
    tol = 1e-3 * w + 8 * np.finfo(float).eps / w
    return bool(tg.contains(tg.single(n, pos[1], pos[2], planetary)[0], q, tol=tol))


def routes(job):
    """The other three routes agree with full enumeration / the reference."""
    from toasty import toast
    from toasty.pyramid import Pos

    if QUERY[0] is None:
        QUERY[0] = _library_filter()

    positions, first_planetary, full_depth = job
    part = Part()
    # both coordinate systems are exercised alternately inside one process (state leaking from one
    # system into the other - a cache keyed by position only - must show), in both orders
    half = len(positions) // 2
    work = []
    for k, p in enumerate(positions):
        order = (first_planetary, not first_planetary) if k < half else (not first_planetary, first_planetary)
        for planetary in order:
            work.append((p, planetary))
    fulls = {}
    for planetary in (False, True):
        fulls[planetary] = {}
        if full_depth:
            for t in toast.generate_tiles(full_depth, bottom_only=False, coordsys=cs_of(planetary)):
                fulls[planetary][tuple(t.pos)] = t

    def bad(clause, detail, cfg):
        part.violation("%s/coordsys=%s" % (clause, cfg["coordsys"]), "%r: %s" % (cfg, detail), cfg)

    held = {"astronomical": [], "planetary": []}
    for (n, x, y), planetary in work:
        csn = "planetary" if planetary else "astronomical"
        cs = cs_of(planetary)
        full = fulls[planetary]
        cfg = {"pos": (n, x, y), "coordsys": csn}
        part.case(nontrivial=True)
        c, inc = tg.single(n, x, y, planetary)
        try:
            s = toast.create_single_tile(Pos(n, x, y), coordsys=cs)
        except Exception as e:
            bad("route-single/raises:%s" % type(e).__name__, repr(e), cfg)
            continue
        vs = tvec(s)
        # a tile already handed out must not change when the OTHER coordinate system is used afterwards, nor when
        # it is shown to one of the library's tile filters (a pure query)
        try:
            QUERY[0](s)
            toast.create_single_tile(Pos(n, x, y), coordsys=cs_of(not planetary))
            toast.toast_tile_for_point(min(n, 3), 0.3, 1.0, coordsys=cs_of(not planetary))
            for _t in toast.generate_tiles(1, coordsys=cs_of(not planetary)):
                pass
        except Exception:
            pass
        if tg.angdist(tvec(s), vs).max() > 0 or (held and any(tg.angdist(tvec(t), v0).max() > 0 for t, v0 in held[csn])):
            bad("tile-mutated-by-later-call", "a tile returned earlier changed after the other coordinate system was used", cfg)
            held[csn] = []
        if n <= 2 and len(held[csn]) < 24:
            held[csn].append((s, vs.copy()))
        if tuple(s.pos) != (n, x, y) or tg.angdist(vs, c).max() > 1e-9 or bool(s.increasing) != inc:
            bad("route-single/differs-from-reference", "create_single_tile corners off by %.3g rad, increasing=%r (reference %r)" % (tg.angdist(vs, c).max(), s.increasing, inc), cfg)
        f = full.get((n, x, y))
        if f is not None and (tg.angdist(tvec(f), vs).max() > 1e-12 or bool(f.increasing) != bool(s.increasing)):
            bad("routes-disagree/single-vs-enumeration", "corners differ by %.3g rad" % tg.angdist(tvec(f), vs).max(), cfg)
        # filtered enumeration with the path filter to this tile
        if n <= 12:
            anc = set((k, x >> (n - k), y >> (n - k)) for k in range(1, n + 1))
            found = [t for t in toast.generate_tiles_filtered(n, lambda t: tuple(t.pos) in anc, bottom_only=True, coordsys=cs)]
            if len(found) != 1 or tuple(found[0].pos) != (n, x, y):
                bad("route-filtered/wrong-tiles", "path filter yielded %r" % ([tuple(t.pos) for t in found][:4],), cfg)
            elif tg.angdist(tvec(found[0]), vs).max() > 1e-12 or bool(found[0].increasing) != bool(s.increasing):
                bad("routes-disagree/filtered-vs-single", "corners differ by %.3g rad" % tg.angdist(tvec(found[0]), vs).max(), cfg)
        # point lookup at the reference centre
        cen = tg.centre(c[None, None], np.array([[inc]]))[0, 0]
        lon, lat = tg.lonlat(cen)
        try:
            pt = toast.toast_tile_for_point(n, float(lat), float(lon), coordsys=cs)
        except Exception as e:
            bad("route-lookup/raises:%s" % type(e).__name__, repr(e), cfg)
            continue
        try:
            # the same point given with a negative longitude
            pneg = toast.toast_tile_for_point(n, float(lat), float(lon) - 2 * np.pi, coordsys=cs)
            if tuple(pneg.pos) != tuple(pt.pos):
                bad("route-lookup/negative-longitude", "lookup at the tile's centre with lon - 2 pi returned %r, with lon %r" % (tuple(pneg.pos), tuple(pt.pos)), cfg)
        except Exception as e:
            bad("route-lookup/raises:%s" % type(e).__name__, repr(e), cfg)
        if tuple(pt.pos) != (n, x, y) and not _within_rounding(tuple(pt.pos), cen, n, planetary):
            bad("route-lookup/wrong-tile", "lookup at the tile's centre returned %r" % (tuple(pt.pos),), cfg)
        elif tuple(pt.pos) != (n, x, y):
            part.count("deep_lookups_resolved_to_a_neighbour_within_rounding")
        elif tg.angdist(tvec(pt), vs).max() > 1e-12 or bool(pt.increasing) != bool(s.increasing):
            bad("routes-disagree/lookup-vs-single", "corners differ by %.3g rad" % tg.angdist(tvec(pt), vs).max(), cfg)
        # the pixel lookup hands back a tile as well: the same one
        if n <= 8 and abs(float(lat)) < np.pi / 2 - np.radians(1.5):
            try:
                tp, _px, _py = toast.toast_pixel_for_point(n, float(lat), float(lon), coordsys=cs)
                if tuple(tp.pos) != (n, x, y):
                    bad("route-pixel-lookup/wrong-tile", "toast_pixel_for_point at the tile's centre returned tile %r" % (tuple(tp.pos),), cfg)
                elif tg.angdist(tvec(tp), vs).max() > 1e-12 or bool(tp.increasing) != bool(s.increasing):
                    bad("routes-disagree/pixel-lookup-vs-single", "corners differ by %.3g rad" % tg.angdist(tvec(tp), vs).max(), cfg)
            except Exception as e:
                bad("route-pixel-lookup/raises:%s" % type(e).__name__, repr(e), cfg)
        # points ON the grid: the tile's own corner points (bit for bit as the library reports them) and its edge
        # midpoints, looked up at this and at deeper levels.  Such a point may resolve to any tile it touches, but the
        # tile handed back must be a real one: its corners are the corners of the position it names (by the
        # single-tile route) and it contains the point
        if n <= 5:
            onq = [(float(s.corners[k][0]), float(s.corners[k][1])) for k in range(4)]
            for k in range(4):
                onq.append(tuple(float(v) for v in tg.lonlat(tg._norm(c[k] + c[(k + 1) % 4]))))
            for (qlon, qlat) in onq:
                q = tg.vec(qlon, qlat)
                for dd in range(n, min(n + 4, 9)):
                    part.count("on_grid_lookups")
                    try:
                        pq = toast.toast_tile_for_point(dd, qlat, qlon, coordsys=cs)
                        ps = toast.create_single_tile(Pos(*tuple(pq.pos)), coordsys=cs)
                    except Exception as e:
                        bad("route-lookup/raises:%s" % type(e).__name__, repr(e), cfg)
                        break
                    if pq.pos.n != dd or tg.angdist(tvec(pq), tvec(ps)).max() > 1e-12 or bool(pq.increasing) != bool(ps.increasing):
                        bad("routes-disagree/lookup-on-grid-vs-single", "lookup of the grid point lon=%r lat=%r at depth %d returned position %r with corners %.3g rad from that position's" % (qlon, qlat, dd, tuple(pq.pos), tg.angdist(tvec(pq), tvec(ps)).max()), cfg)
                        break
                    if not tg.contains(tg.single(dd, pq.pos.x, pq.pos.y, planetary)[0], q, tol=1e-9):
                        bad("route-lookup/on-grid-point-not-in-tile", "lookup of the grid point lon=%r lat=%r at depth %d returned %r, which does not touch it" % (qlon, qlat, dd, tuple(pq.pos)), cfg)
                        break
                else:
                    continue
                break
        # ... and at points 4% of the way from each corner towards the centre (well inside the tile, but
        # close enough to its edges that a size-independent tolerance would misplace them in deep tiles)
        if 19 <= n <= 22:
            # tiles touching a pole: a point 1.0e-8 rad from the pole towards the tile's centre (7e-9 rad from both
            # sides, beyond the rounding allowance at these depths).  There sin(lat) rounds to 1, so a lookup that
            # recovers cos(lat) from it loses the longitude
            for k in range(4):
                if abs(abs(float(tg.lonlat(c[k])[1])) - np.pi / 2) < 1e-12:
                    # (built in longitude/latitude: a unit vector cannot hold a point this close to the pole)
                    qlon = float(tg.lonlat(cen)[0])
                    qlat = float(np.sign(tg.lonlat(c[k])[1])) * (np.pi / 2 - 1.0e-8)
                    q = tg.vec(qlon, qlat)
                    part.count("pole_proximity_lookups")
                    try:
                        pq = toast.toast_tile_for_point(n, float(qlat), float(qlon), coordsys=cs)
                    except Exception as e:
                        bad("route-lookup/raises:%s" % type(e).__name__, repr(e), cfg)
                        break
                    if tuple(pq.pos) != (n, x, y) and not _within_rounding(tuple(pq.pos), q, n, planetary):
                        bad("route-lookup/wrong-tile-near-pole", "lookup 1.0e-8 rad from the pole, inside this tile, returned %r" % (tuple(pq.pos),), cfg)
        if n >= 8:
            for k in range(4):
                q = tg._norm(0.96 * c[k] + 0.04 * cen)
                qlon, qlat = tg.lonlat(q)
                if abs(float(qlat)) > np.pi / 2 - 1e-9:
                    continue
                try:
                    pq = toast.toast_tile_for_point(n, float(qlat), float(qlon), coordsys=cs)
                except Exception as e:
                    bad("route-lookup/raises:%s" % type(e).__name__, repr(e), cfg)
                    break
                if tuple(pq.pos) != (n, x, y) and _within_rounding(tuple(pq.pos), q, n, planetary):
                    part.count("deep_lookups_resolved_to_a_neighbour_within_rounding")
                elif tuple(pq.pos) != (n, x, y):
                    bad("route-lookup/wrong-tile-near-corner", "lookup 4%% inside corner %d returned %r" % (k, tuple(pq.pos)), cfg)
                    break
    part.sample({"routes": "single/filtered/lookup", "coordsys": "both, alternating", "example": positions[len(positions) // 2]})
    return part


def very_deep(job):
    """'Each tile is exactly tiled by its four children', judged relative to the tile size far below the
    enumeration bound (depths 30-40): the children's corners are the parent's corners, the great-circle
    midpoints of its sides and the midpoint of its dividing diagonal, to 1e-3 of a tile width."""
    from toasty import toast
    from toasty.pyramid import Pos

    positions, planetary = job
    part = Part()
    csn = "planetary" if planetary else "astronomical"
    for (n, x, y) in positions:
        cfg = {"pos": (n, x, y), "coordsys": csn, "very_deep": True}
        part.case(nontrivial=True)
        try:
            par_t = toast.create_single_tile(Pos(n, x, y), coordsys=cs_of(planetary))
            kids = [[toast.create_single_tile(Pos(n + 1, 2 * x + i, 2 * y + j), coordsys=cs_of(planetary)) for i in range(2)] for j in range(2)]
        except Exception as e:
            part.violation("very-deep/raises:%s/coordsys=%s" % (type(e).__name__, csn), "%r: %r" % (cfg, e), cfg)
            continue
        pc = tvec(par_t)  # ul, ur, lr, ll
        w = max(tg.angdist(pc[0], pc[1]), tg.angdist(pc[1], pc[2]))
        tol = 1e-3 * w + 4e-16
        mid = lambda a, b: tg._norm(a + b)
        top, right, bottom, left = mid(pc[0], pc[1]), mid(pc[1], pc[2]), mid(pc[2], pc[3]), mid(pc[3], pc[0])
        centre = mid(pc[0], pc[2]) if not par_t.increasing else mid(pc[1], pc[3])
        want = {
            (0, 0): [pc[0], top, centre, left],
            (0, 1): [top, pc[1], right, centre],
            (1, 1): [centre, right, pc[2], bottom],
            (1, 0): [left, centre, bottom, pc[3]],
        }
        worst = 0.0
        for (j, i), ws in want.items():
            kc = tvec(kids[j][i])
            for k in range(4):
                worst = max(worst, float(tg.angdist(kc[k], ws[k])))
        if worst > tol:
            part.violation("very-deep/children-do-not-tile-parent/coordsys=%s" % csn, "%r: a child's corner is %.3g rad (%.3g tile widths) away from the parent's corner / side midpoint / diagonal midpoint" % (cfg, worst, worst / w), cfg)
    part.sample({"very_deep": True, "coordsys": csn, "example": positions[0]})
    return part


def pyramid_route(job):
    """A fifth way to a tile: the traversal of a Pyramid made for one coordinate system, traversed after another
    Pyramid was made for the other system."""
    from toasty.pyramid import Pyramid

    depth, planetary = job
    part = Part()
    csn = "planetary" if planetary else "astronomical"
    first = Pyramid.new_toast(depth, coordsys=cs_of(planetary))
    Pyramid.new_toast(depth, coordsys=cs_of(not planetary))
    got = []
    first.visit_leaves(lambda pos, tile: got.append((tuple(pos), tile)), parallel=1)
    for pos, t in got:
        part.case(nontrivial=True)
        cfg = {"pos": pos, "coordsys": csn, "pyramid_route": True}
        c, inc = tg.single(pos[0], pos[1], pos[2], planetary)
        if tg.angdist(tvec(t), c).max() > 1e-9 or bool(t.increasing) != inc:
            part.violation("route-pyramid/differs-from-reference/coordsys=%s" % csn, "%r: the tile delivered by the pyramid traversal is %.3g rad off the reference for its own coordinate system" % (cfg, tg.angdist(tvec(t), c).max()), cfg)
            break
    return part


def interleaved(job):
    """Two enumerations alive at once in one thread, consumed in turn under every schedule of a small family (strict
    alternation, 1:3, 3:1, and "k tiles of the first, all of the second, the rest of the first" for every k): each
    generator still yields every tile of its own depth and coordinate system, with the geometry of that system."""
    from toasty import toast

    (spec_a, spec_b) = job
    part = Part()

    def mk(spec):
        depth, planetary, bottom_only, filtered = spec
        if filtered:
            keep = {(1, 1, 0), (2, 2, 0), (2, 3, 1), (1, 0, 1), (2, 0, 2), (2, 1, 3)} | {(3, x, y) for x in range(8) for y in range(8)}
            return toast.generate_tiles_filtered(depth, lambda t: tuple(t.pos) in keep, bottom_only=bottom_only, coordsys=cs_of(planetary))
        return toast.generate_tiles(depth, bottom_only=bottom_only, coordsys=cs_of(planetary))

    def expected(spec):
        depth, planetary, bottom_only, filtered = spec
        return len(list(mk(spec)))

    na, nb = expected(spec_a), expected(spec_b)
    scheds = [("alternate", None), ("1:3", None), ("3:1", None)] + [("split", k) for k in range(0, na + 1, max(1, na // 12))]
    for sname, k in scheds:
        cfg = {"interleaved": [list(spec_a), list(spec_b)], "schedule": sname, "k": k}
        part.case(nontrivial=True)
        part.executions += 1
        ga, gb = mk(spec_a), mk(spec_b)
        got = {0: [], 1: []}
        alive = {0: True, 1: True}

        def take(i, n):
            g = (ga, gb)[i]
            for _ in range(n):
                if not alive[i]:
                    return
                try:
                    got[i].append(next(g))
                except StopIteration:
                    alive[i] = False

        try:
            if sname == "split":
                take(0, k)
                take(1, nb + 1)
                take(0, na + 1)
            else:
                ra, rb = {"alternate": (1, 1), "1:3": (1, 3), "3:1": (3, 1)}[sname]
                while alive[0] or alive[1]:
                    take(0, ra)
                    take(1, rb)
        except Exception as e:
            part.violation("interleaved/raises:%s" % type(e).__name__, "%r: %r" % (cfg, e), cfg)
            continue
        for i, spec in ((0, spec_a), (1, spec_b)):
            planetary = spec[1]
            poss = [tuple(t.pos) for t in got[i]]
            if len(poss) != (na, nb)[i] or len(set(poss)) != len(poss):
                part.violation("interleaved/enumeration-set", "%r: enumeration %d yielded %d tiles (%d distinct) when consumed in turn with another one; alone it yields %d" % (cfg, i, len(poss), len(set(poss)), (na, nb)[i]), cfg)
                break
            worst = 0.0
            for t in got[i]:
                c, inc = tg.single(t.pos.n, t.pos.x, t.pos.y, planetary)
                worst = max(worst, float(tg.angdist(tvec(t), c).max()))
                if bool(t.increasing) != inc:
                    worst = max(worst, 9.0)
            if worst > 1e-9:
                part.violation("interleaved/differs-from-reference", "%r: a tile of enumeration %d (%s) is %.3g rad off the reference of its own coordinate system when two enumerations are consumed in turn" % (cfg, i, "planetary" if planetary else "astronomical", worst), cfg)
                break
    part.sample({"interleaved": [list(spec_a), list(spec_b)], "schedules": len(scheds)})
    return part


def _job(j):
    if j[0] == "interleaved":
        return interleaved(j[1:])
    if j[0] == "pyramid-route":
        return pyramid_route(j[1:])
    if j[0] == "very-deep":
        return very_deep(j[1:])
    return full_levels(j[1:]) if j[0] == "full" else routes(j[1:])


def run(tier, seed):
    rep = Report(PROP, tier, seed, "exploration")
    D = 7 if tier == "quick" else 9
    nlat = 26 if tier == "quick" else 28
    rep.rule = (
        "every tile at depths 1..%d from full enumeration vs the 3-D reference (corners, diagonal, areas, nesting, neighbours), both coordinate systems; "
        "single-tile, path-filtered and point-lookup routes for every tile to depth %d and a deterministic deep lattice to depth %d; at depths 30-40 on a 7x7 lattice the four children "
        "against the parent's corners and side/diagonal midpoints to 1e-3 tile widths; every ordered pair of 6 (8) enumerations (depth, system, leaves-only, filtered) alive at once and consumed in turn under alternation, 1:3, 3:1 and every split point; every tile is non-trivial"
        % (D, 4 if tier == "quick" else 5, nlat)
    )
    rep.assumptions = ["depths beyond the bound are covered only on the lattice x,y in {0,1,2^(n-1)-1,2^(n-1),2^n-2,2^n-1}", "tolerances: 1e-9 rad against the reference, 1e-12 between routes"]
    jobs = []
    rd = 4 if tier == "quick" else 5
    for planetary in (False, True):
        jobs.append(("full", D, planetary))
    allp = [(n, x, y) for n in range(1, rd + 1) for y in range(2**n) for x in range(2**n)]
    k = 10
    for i in range(k):
        jobs.append(("routes", allp[i::k], bool(i % 2), rd))
    lat = [p for p in lattice(nlat) if p[0] > rd]
    for i in range(k):
        jobs.append(("routes", lat[i::k], bool(i % 2), 0))
    # far below the bound: relative to the tile size
    vd = []
    for n in ((30, 34, 38) if tier == "quick" else (30, 32, 34, 36, 38, 40)):
        side = 2**n
        vals = [0, 1, side // 2 - 1, side // 2, side - 1, side // 3, (5 * side) // 7]
        vd += [(n, x, y) for x in vals for y in vals]
    for i in range(4):
        jobs.append(("very-deep", vd[i::4], bool(i % 2)))
        jobs.append(("very-deep", vd[i::4], not bool(i % 2)))
    for planetary in (False, True):
        jobs.append(("pyramid-route", 2 if tier == "quick" else 3, planetary))
    # two enumerations alive at once: (depth, planetary, bottom_only, filtered)
    specs = [(2, False, True, False), (2, True, True, False), (3, False, False, False), (3, True, True, False), (3, False, True, True), (2, True, False, True)]
    if tier == "thorough":
        specs += [(4, False, True, False), (4, True, False, False)]
    for a in specs:
        for b in specs:
            jobs.append(("interleaved", a, b))
    par.pmap(_job, jobs, rep)
    return rep.finish()


def replay(payload):
    r = payload["replay"]
    planetary = r.get("coordsys") == "planetary"
    if r.get("interleaved"):
        p = interleaved((tuple(r["interleaved"][0]), tuple(r["interleaved"][1])))
    elif r.get("pyramid_route"):
        p = pyramid_route((r["pos"][0], planetary))
    elif r.get("very_deep"):
        p = very_deep(([tuple(r["pos"])], planetary))
    elif "pos" in r and r.get("route") != "generate_tiles":
        p = routes(([tuple(r["pos"])], planetary, min(r["pos"][0], 5)))
    else:
        p = full_levels((min(6, r.get("pos", [r.get("level", 3)])[0]), planetary))
    for sig, (detail, _) in p.violations.items():
        print("REPLAY-FAIL", sig, detail[:300])
    return 1 if p.violations else 0
