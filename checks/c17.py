"""C17 -- the WTML and the returned data-set description match the files on disk.

(a) every position to a depth bound x naming scheme x format: the WTML URL template
expanded the way a WWT client does it equals the path PyramidIO writes to; injective.
(b) every tiling workflow that emits index_rel.wtml on small synthetic inputs: template
expansion vs files on disk, FileType, TileLevels.
(c) breadth-first search over histories of tile_fits calls on one output directory
(fresh / reuse / override): the returned Builder agrees with the index_rel.wtml on disk.
"""
import itertools
import os
import shutil

import numpy as np

from vt import par
from vt.fixtures import scratch, quiet, rng_order
from vt.harness import Part, Report
from vt.ref import wtml, quadtree

PROP = "C17"


# --- (a) template vs paths ---------------------------------------------------------------------


def template_job(job):
    from toasty.pyramid import PyramidIO, Pos
    from toasty.builder import Builder

    scheme, fmt, depth = job
    part = Part()
    with scratch("c17a") as d:
        pio = PyramidIO(d, scheme=scheme, default_format=fmt)
        b = Builder(pio)
        url = b.imgset.url
        cfg = {"scheme": scheme, "format": fmt}
        if b.imgset.file_type != "." + fmt:
            part.violation("template/file-type/scheme=%s" % scheme, "%r: FileType %r" % (cfg, b.imgset.file_type), cfg)
        seen = {}
        for n in range(depth + 1):
            side = 2**n
            if n <= 4:
                coords = [(x, y) for y in range(side) for x in range(side)]
            else:
                vals = sorted(set([0, 1, 2, 3, side // 2 - 1, side // 2, side - 2, side - 1, 10 % side, 11 % side, 21 % side]))
                coords = [(x, y) for y in vals for x in vals]
            for x, y in coords:
                part.case(nontrivial=x != y)
                want = os.path.relpath(pio.tile_path(Pos(n, x, y), makedirs=False), d)
                got = os.path.normpath(wtml.expand(url, n, x, y))
                if got != os.path.normpath(want):
                    part.violation("template/path-mismatch/scheme=%s" % scheme, "%r: position (%d,%d,%d) written at %s but the URL template %s expands to %s" % (cfg, n, x, y, want, url, got), dict(cfg, pos=(n, x, y)))
                if got in seen and seen[got] != (n, x, y):
                    part.violation("template/not-injective/scheme=%s" % scheme, "%r: %r and %r share %s" % (cfg, seen[got], (n, x, y), got), cfg)
                seen[got] = (n, x, y)
    part.sample({"scheme": scheme, "format": fmt, "url": url, "depth": depth})
    return part


# --- helpers for (b), (c) ------------------------------------------------------------------------


def parse_index(out):
    from wwt_data_formats.folder import Folder
    from wwt_data_formats.place import Place

    f = Folder.from_file(os.path.join(out, "index_rel.wtml"))
    child = f.children[0]
    if isinstance(child, Place):
        return child.foreground_image_set or child.image_set, child
    return child, None


def tile_files(out, ext):
    files = set()
    for root, _d, fs in os.walk(out):
        for f in fs:
            if f.endswith(ext) and f not in ("thumb.jpg",) and not f.startswith("index"):
                files.add(os.path.normpath(os.path.relpath(os.path.join(root, f), out)))
    return files


def check_wtml_vs_disk(out, part, wf, cfg, expect_levels=None):
    def bad(clause, detail):
        part.violation("workflow/%s/%s" % (clause, wf), "%r: %s" % (cfg, detail), cfg)

    try:
        imgset, place = parse_index(out)
    except Exception as e:
        bad("index-unreadable", repr(e))
        return None
    ext = imgset.file_type
    if not ext.startswith("."):
        ext = "." + ext
    files = tile_files(out, ext)
    if not files:
        bad("no-tiles", "no tile files with extension %s under %s (FileType %r)" % (ext, out, imgset.file_type))
        return imgset
    reach = {}
    L = imgset.tile_levels
    for n in range(0, L + 2):
        for y in range(2**n):
            for x in range(2**n):
                p = os.path.normpath(wtml.expand(imgset.url, n, x, y))
                if p in files:
                    reach[p] = (n, x, y)
    orphans = sorted(files - set(reach))
    if orphans:
        bad("orphan-tiles", "%d tile files are not reachable through the URL template %s, e.g. %r" % (len(orphans), imgset.url, orphans[:3]))
    deepest = max((v[0] for v in reach.values()), default=None)
    if deepest is not None and deepest != L:
        bad("tile-levels", "TileLevels=%d but the deepest populated layer is %d" % (L, deepest))
    if expect_levels is not None and L != expect_levels:
        bad("tile-levels-expected", "TileLevels=%d, expected %d" % (L, expect_levels))
    return imgset


ATTRS_IMG = ["url", "file_type", "tile_levels", "projection", "center_x", "center_y", "base_degrees_per_tile", "rotation_deg", "offset_x", "offset_y", "data_min", "data_max", "width_factor", "bottoms_up", "base_tile_level", "data_set_type"]
ATTRS_PLACE = ["ra_hr", "dec_deg", "zoom_level", "rotation_deg", "data_set_type"]


def close(a, b):
    if isinstance(a, float) or isinstance(b, float):
        try:
            return abs(float(a) - float(b)) <= 1e-9 * max(1.0, abs(float(a)), abs(float(b)))
        except (TypeError, ValueError):
            return a == b
    return a == b


def compare_builder_with_disk(bld, out, part, wf, cfg):
    def bad(clause, detail):
        part.violation("tile_fits/%s/%s" % (clause, wf), "%r: %s" % (cfg, detail), cfg)

    if bld is None:
        bad("no-builder-returned", "tile_fits returned no Builder")
        return
    imgset, place = parse_index(out)
    diffs = []
    for a in ATTRS_IMG:
        if not close(getattr(bld.imgset, a, None), getattr(imgset, a, None)):
            diffs.append("imgset.%s: returned %r, index_rel.wtml %r" % (a, getattr(bld.imgset, a, None), getattr(imgset, a, None)))
    if place is not None:
        for a in ATTRS_PLACE:
            if not close(getattr(bld.place, a, None), getattr(place, a, None)):
                diffs.append("place.%s: returned %r, index_rel.wtml %r" % (a, getattr(bld.place, a, None), getattr(place, a, None)))
    if diffs:
        bad("returned-description-differs-from-wtml", "; ".join(diffs[:6]))


def make_fits(path, w, h, scale, crval=(10.0, 20.0), rot=0.0):
    from astropy.io import fits
    from astropy.wcs import WCS

    wcs = WCS(naxis=2)
    wcs.wcs.ctype = ["RA---TAN", "DEC--TAN"]
    wcs.wcs.crval = list(crval)
    wcs.wcs.cdelt = [-scale, scale]
    wcs.wcs.crpix = [w / 2.0 + 0.5, h / 2.0 + 0.5]
    if rot:
        c, s = np.cos(np.radians(rot)), np.sin(np.radians(rot))
        wcs.wcs.pc = [[c, -s], [s, c]]
    data = (np.arange(w * h, dtype=np.float32).reshape(h, w) % 977) + 1.0
    fits.PrimaryHDU(data, header=wcs.to_header()).writeto(path, overwrite=True)


def make_png(path, w, h, rgba=False):
    from PIL import Image as PI

    yy, xx = np.mgrid[0:h, 0:w]
    arr = np.stack([(xx * 3) % 256, (yy * 5) % 256, (xx + yy) % 256] + ([np.full_like(xx, 255)] if rgba else []), axis=-1).astype("u1")
    PI.fromarray(arr).save(path)


# --- (b) workflows -------------------------------------------------------------------------------------


def workflow_job(job):
    from toasty import cli

    wf = job[0]
    part = Part()
    part.case(nontrivial=True)
    cfg = {"workflow": job}
    with scratch("c17b") as d:
        out = os.path.join(d, "out")
        try:
            with quiet():
                if wf == "tile-study":
                    _, w, h, cascade = job
                    make_png(os.path.join(d, "in.png"), w, h)
                    cli.entrypoint(["tile-study", "--placeholder-thumbnail", "--outdir", out, os.path.join(d, "in.png")])
                    if cascade:
                        from vt.ref import tiling

                        cli.entrypoint(["cascade", "--parallelism", "1", "--start", str(tiling.levels(w, h)), out])
                elif wf == "tile-study-fits":
                    _, w, h = job
                    make_fits(os.path.join(d, "in.fits"), w, h, 1e-3)
                    cli.entrypoint(["tile-study", "--placeholder-thumbnail", "--outdir", out, os.path.join(d, "in.fits")])
                elif wf == "tile-allsky":
                    _, depth, proj, cascade = job
                    make_png(os.path.join(d, "sky.png"), 64, 32)
                    cli.entrypoint(["tile-allsky", "--placeholder-thumbnail", "--projection", proj, "--parallelism", "1", "--outdir", out, os.path.join(d, "sky.png"), str(depth)])
                    if cascade:
                        cli.entrypoint(["cascade", "--parallelism", "1", "--start", str(depth), out])
                elif wf == "tile-multi-tan":
                    _, n = job
                    paths = []
                    for i in range(n):
                        p = os.path.join(d, "mt%d.fits" % i)
                        make_fits(p, 200, 180, 1e-3)
                        from astropy.io import fits

                        with fits.open(p, mode="update") as hd:
                            hd[0].header["CRPIX1"] = 100.5 - 200 * i
                        paths.append(p)
                    cli.entrypoint(["tile-multi-tan", "--parallelism", "1", "--outdir", out] + paths)
                elif wf == "study-api":
                    # the Builder route with a pyramid whose tile format is NOT the one the image itself prefers
                    # (an in-memory bitmap prefers png; a float array prefers npy)
                    _, w, h, kind, fmt, scheme = job
                    from toasty.builder import Builder
                    from toasty.image import Image
                    from toasty.pyramid import PyramidIO

                    yy, xx = np.mgrid[0:h, 0:w]
                    if kind == "rgb":
                        arr = np.stack([(xx * 3) % 256, (yy * 5) % 256, (xx + yy) % 256], axis=-1).astype("u1")
                    else:
                        arr = (xx * 0.5 + yy * 0.25 + 1.0).astype("f4")
                    pio = PyramidIO(out, default_format=fmt, scheme=scheme)
                    b = Builder(pio)
                    b.tile_base_as_study(Image.from_array(arr))
                    b.set_name("api")
                    b.write_index_rel_wtml()
                elif wf == "tile-wwtl":
                    # a WWT layer file holding one sky-image layer stored as JPEG or PNG (the layer's own file type
                    # is not the tiles' one).  The layer description comes from toasty's own test data.
                    _, w, h, ext = job
                    import io
                    from PIL import Image as PILImage
                    from wwt_data_formats.filecabinet import FileCabinetWriter
                    from toasty.tests import mk_test_path

                    with open(mk_test_path("layercontainer.wwtxml"), "rb") as f:
                        xml = f.read().decode("utf-8-sig")
                    xml = xml.replace('Extension=".jpg"', 'Extension="%s"' % ext).replace('FileType=".jpg"', 'FileType="%s"' % ext).replace("InternalPath.jpg", "InternalPath" + ext)
                    yy, xx = np.mgrid[0:h, 0:w]
                    arr = np.stack([(xx * 3) % 256, (yy * 5) % 256, (xx + yy) % 256], axis=-1).astype("u1")
                    buf = io.BytesIO()
                    PILImage.fromarray(arr).save(buf, format={".jpg": "JPEG", ".png": "PNG"}[ext])
                    fw = FileCabinetWriter()
                    lc, layer = "55cb0cce-c44a-4a44-a509-ea66fce643a5", "7ecb6411-e4ee-4dfa-90ef-77d6f486c7d2"
                    fw.add_file_with_data(lc + ".wwtxml", xml.encode("utf-8"))
                    fw.add_file_with_data(lc + "\\" + layer + ext, buf.getvalue())
                    with open(os.path.join(d, "layer.wwtl"), "wb") as f:
                        fw.emit(f)
                    cli.entrypoint(["tile-wwtl", "--placeholder-thumbnail", "--outdir", out, os.path.join(d, "layer.wwtl")])
                elif wf == "pipeline":
                    _, w, h = job
                    out = run_pipeline(d, w, h)
                else:
                    raise ValueError(wf)
        except SystemExit as e:
            part.violation("workflow/exits/%s" % wf, "%r: exited with %r" % (cfg, e.code), cfg)
            return part
        except Exception as e:
            part.violation("workflow/raises:%s/%s" % (type(e).__name__, wf), "%r: %r" % (cfg, e), cfg)
            return part
        check_wtml_vs_disk(out, part, wf, cfg)
    part.sample(cfg)
    return part


def run_pipeline(d, w, h):
    """The pipeline workflow with a local image source registered the way the test-suite does."""
    from toasty import cli, pipeline
    from toasty.pipeline import astropix
    from PIL import Image as PI

    src = os.path.join(d, "src.jpg")
    yy, xx = np.mgrid[0:h, 0:w]
    PI.fromarray(np.stack([(xx // 4) % 256, (yy // 4) % 256, ((xx + yy) // 8) % 256], axis=-1).astype("u1")).save(src, quality=95)

    class LocalSource(astropix.AstroPixImageSource):
        def query_candidates(self):
            item = {
                "creator": "Verif", "title": "Test", "description": "x", "object_name": ["X"],
                "resource_url": "http://example.com/x.jpg", "reference_url": "https://example.com/",
                "image_id": "test1", "image_credit": "x", "wcs_coordinate_frame": "ICRS", "wcs_equinox": "J2000",
                "wcs_reference_value": ["187.70593075", "12.39112325"], "wcs_reference_dimension": [str(float(w)), str(float(h))],
                "wcs_reference_pixel": [str(w / 2.0), str(h / 2.0)], "wcs_scale": ["-5.9e-5", "5.9e-5"], "wcs_rotation": "0",
                "wcs_projection": "TAN", "wcs_quality": "Full", "wcs_notes": "FAKE", "publisher": "FAKE", "publisher_id": "fake",
                "resource_id": "test1", "last_updated": "2019-04-08T14:00:38.128143", "metadata_version": "1.1",
                "image_width": str(w), "image_height": str(h), "image_max_boundry": str(max(w, h)), "astropix_id": 1,
            }
            yield astropix.AstroPixCandidateInput(item)

        def fetch_candidate(self, unique_id, cand_data_stream, cachedir):
            shutil.copy(src, os.path.join(cachedir, "image.jpg"))

    pipeline.IMAGE_SOURCE_CLASS_LOADERS["_verif_astropix"] = lambda: LocalSource
    repo = os.path.join(d, "repo")
    work = os.path.join(d, "work")
    os.makedirs(repo)
    with open(os.path.join(repo, "toasty-pipeline-config.yaml"), "w") as f:
        f.write("source_type: _verif_astropix\npublish_url_prefix: //localhost/\nfolder_name: Verif\nfolder_thumbnail_url: //x/y\n\nastropix:\n  json_query_url: https://unused.example.com/\n")
    cli.entrypoint(["pipeline", "init", "--local", repo, work])
    cli.entrypoint(["pipeline", "refresh", "--workdir", work])
    cli.entrypoint(["pipeline", "fetch", "--workdir", work, "fake_test1"])
    cli.entrypoint(["pipeline", "process-todos", "--workdir", work])
    return os.path.join(work, "processed", "fake_test1")


# --- (c) histories of tile_fits on one output directory -------------------------------------------


def history_job(job):
    import toasty
    from toasty import TilingMethod

    method, maxdepth, ninputs = job[:3]
    # the search can be split over processes by the second call of the history
    branch = job[3] if len(job) > 3 else None
    part = Part()
    tm = {"TAN": TilingMethod.TAN, "TOAST": TilingMethod.TOAST}[method]
    with scratch("c17c") as d:
        paths = []
        if method == "TAN":
            for i in range(ninputs):
                p = os.path.join(d, "in%d.fits" % i)
                make_fits(p, 300, 280, 1e-3, rot=15.0 if ninputs == 1 else 0.0)
                if ninputs > 1:
                    from astropy.io import fits

                    with fits.open(p, mode="update") as hd:
                        hd[0].header["CRPIX1"] = 150.5 - 300 * i
                paths.append(p)
            kw = {}
        elif ninputs == 1:
            p = os.path.join(d, "in0.fits")
            make_fits(p, 40, 30, 0.5, crval=(80.0, -10.0))
            paths.append(p)
            kw = {"start": 2}
        else:
            # inputs of different pixel scales, the finer one first; the depth is guessed
            for i, (w, h, scale) in enumerate([(48, 40, 0.12), (30, 24, 0.5), (40, 40, 0.3)][:ninputs]):
                p = os.path.join(d, "in%d.fits" % i)
                make_fits(p, w, h, scale, crval=(80.0 + 3 * i, -10.0))
                paths.append(p)
            kw = {}
        # a second, different data set for the same output directory (ops "override-other": the directory is re-tiled
        # with override=True from the OTHER input; a later "reuse" is then the identical call on that input)
        other = None
        if ninputs == 1:
            po = os.path.join(d, "other.fits")
            if method == "TAN":
                make_fits(po, 560, 530, 7e-4, crval=(12.0, 21.0))
                other = (po, {})
            else:
                make_fits(po, 36, 36, 0.5, crval=(200.0, 35.0))
                other = (po, {"start": 3})
        out = os.path.join(d, "out")
        # BFS over call sequences; the state is fully described by "an output of this method exists"
        frontier = [[]]
        states = {(): 1}
        transitions = 0
        for depth in range(maxdepth + 1):
            nxt = []
            for hist in frontier:
                ops = ["fresh"] if not hist else ["reuse", "override"] + (["override-other"] if other is not None and hist.count("override-other") < 2 else [])
                for op in ops:
                    h2 = hist + [op]
                    if len(h2) > maxdepth + 1:
                        continue
                    if branch is not None and ((len(h2) == 1 and branch != "reuse") or (len(h2) >= 2 and h2[1] != branch)):
                        if len(h2) == 1:
                            nxt.append(h2)
                        continue
                    shutil.rmtree(out, ignore_errors=True)
                    cfg = {"method": method, "inputs": ninputs, "history": h2}
                    part.case(nontrivial=len(h2) > 1)
                    transitions += 1
                    try:
                        with quiet():
                            r = None
                            cur = (paths if len(paths) > 1 else paths[0], kw)
                            for o in h2:
                                if o == "override-other":
                                    cur = other if cur[0] != other[0] else (paths[0], kw)
                                r = toasty.tile_fits(cur[0], out_dir=out, tiling_method=tm, parallel=1, override=o.startswith("override"), **dict(cur[1]))
                        od, bld = r
                    except Exception as e:
                        part.violation("tile_fits/raises:%s/%s" % (type(e).__name__, method), "%r: %r" % (cfg, e), cfg)
                        continue
                    if os.path.normpath(od) != os.path.normpath(out):
                        part.violation("tile_fits/out_dir/%s" % method, "%r: returned out_dir %r" % (cfg, od), cfg)
                    last = "fresh" if h2[-1] in ("fresh", "override", "override-other") else "reuse"
                    compare_builder_with_disk(bld, out, part, "%s/%s" % (method, last), cfg)
                    check_wtml_vs_disk(out, part, "tile_fits-%s" % method, cfg)
                    nxt.append(h2)
            frontier = nxt
        # a first call that dies while tiling (the k-th tile write fails), then the identical call again: whatever
        # index the directory holds afterwards must agree with the tiles on disk
        from toasty import pyramid as _pyr

        for k in (1, 3):
            shutil.rmtree(out, ignore_errors=True)
            cfg = {"method": method, "inputs": ninputs, "history": ["fresh-faulting-at-write-%d" % k, "reuse"]}
            part.case(nontrivial=True)
            transitions += 2
            real_write = _pyr.PyramidIO.write_image
            count = [0]

            def failing(self, *a, **kw):
                count[0] += 1
                if count[0] == k:
                    raise OSError(28, "No space left on device (injected)")
                return real_write(self, *a, **kw)

            _pyr.PyramidIO.write_image = failing
            try:
                with quiet():
                    toasty.tile_fits(paths if len(paths) > 1 else paths[0], out_dir=out, tiling_method=tm, parallel=1, **dict(kw))
                faulted = False
            except Exception:
                faulted = True
            finally:
                _pyr.PyramidIO.write_image = real_write
            if not faulted:
                continue
            try:
                with quiet():
                    od, bld = toasty.tile_fits(paths if len(paths) > 1 else paths[0], out_dir=out, tiling_method=tm, parallel=1, **dict(kw))
            except Exception as e:
                continue  # failing visibly on a half-written directory is acceptable
            if os.path.exists(os.path.join(out, "index_rel.wtml")):
                compare_builder_with_disk(bld, out, part, "%s/after-faulted-run" % method, cfg)
                check_wtml_vs_disk(out, part, "tile_fits-%s-after-faulted-run" % method, cfg)
        # repeated with override after the input changed: the directory holds an earlier, DEEPER pyramid of the
        # same path; override must leave exactly the new pyramid (tile levels = deepest populated layer)
        if ninputs == 1:
            shutil.rmtree(out, ignore_errors=True)
            cfg = {"method": method, "inputs": 1, "history": ["fresh-on-a-larger-input", "override"]}
            part.case(nontrivial=True)
            transitions += 2
            try:
                with quiet():
                    if method == "TAN":
                        make_fits(paths[0], 600, 600, 1e-3, rot=15.0)
                        toasty.tile_fits(paths[0], out_dir=out, tiling_method=tm, parallel=1)
                        make_fits(paths[0], 200, 200, 1e-3, rot=15.0)
                        od, bld = toasty.tile_fits(paths[0], out_dir=out, tiling_method=tm, parallel=1, override=True)
                        make_fits(paths[0], 300, 280, 1e-3, rot=15.0)
                    else:
                        toasty.tile_fits(paths[0], out_dir=out, tiling_method=tm, parallel=1, start=4)
                        od, bld = toasty.tile_fits(paths[0], out_dir=out, tiling_method=tm, parallel=1, override=True, start=2)
                compare_builder_with_disk(bld, out, part, "%s/override-after-deeper" % method, cfg)
                check_wtml_vs_disk(out, part, "tile_fits-%s-override-after-deeper" % method, cfg)
            except Exception as e:
                part.violation("tile_fits/raises:%s/%s" % (type(e).__name__, method), "%r: %r" % (cfg, e), cfg)
        # the same tiling with worker processes (descriptions and sub-tilings travel through a queue)
        if ninputs > 1:
            shutil.rmtree(out, ignore_errors=True)
            cfg = {"method": method, "inputs": ninputs, "history": ["fresh-parallel-2", "reuse"], "parallel": 2}
            part.case(nontrivial=True)
            transitions += 2
            try:
                for hname in ("fresh", "reuse"):
                    with quiet():
                        od, bld = toasty.tile_fits(paths, out_dir=out, tiling_method=tm, parallel=2, **dict(kw))
                    compare_builder_with_disk(bld, out, part, "%s/parallel-%s" % (method, hname), cfg)
                    check_wtml_vs_disk(out, part, "tile_fits-%s-parallel-%s" % (method, hname), cfg)
            except Exception as e:
                part.violation("tile_fits/raises:%s/%s-parallel" % (type(e).__name__, method), "%r: %r" % (cfg, e), cfg)
        # every default: no output directory named (it is derived from the first input's name) and the tiling
        # method left to be detected; fresh, then reused
        if method == "TAN" or ninputs > 1:
            cfg = {"method": method, "inputs": ninputs, "history": ["fresh-all-defaults", "reuse"], "defaults": True}
            part.case(nontrivial=True)
            transitions += 2
            first = paths[0]
            dflt = first[: first.rfind(".")] + "_tiled"
            for sfx in ("", "_TOAST", "_HiPS"):
                shutil.rmtree(dflt + sfx, ignore_errors=True)
            try:
                for hname in ("fresh", "reuse"):
                    with quiet():
                        od, bld = toasty.tile_fits(paths if len(paths) > 1 else paths[0], parallel=1)
                    if not os.path.isdir(od) or not os.path.normpath(od).startswith(os.path.normpath(dflt)):
                        part.violation("tile_fits/default-out_dir/%s" % method, "%r: returned out_dir %r, expected a directory named after the first input (%r...)" % (cfg, od, dflt), cfg)
                        break
                    compare_builder_with_disk(bld, od, part, "%s/defaults-%s" % (method, hname), cfg)
                    check_wtml_vs_disk(od, part, "tile_fits-defaults-%s" % hname, cfg)
            except Exception as e:
                part.violation("tile_fits/raises:%s/defaults" % type(e).__name__, "%r: %r" % (cfg, e), cfg)
            for sfx in ("", "_TOAST", "_HiPS"):
                shutil.rmtree(dflt + sfx, ignore_errors=True)
        part.states += 5  # empty directory, produced, produced-and-reused, half-written, produced-from-another-input
        part.transitions += transitions
        part.executions += transitions
    part.sample({"method": method, "history_depth": maxdepth + 1})
    return part


def _job(j):
    kind = j[0]
    if kind == "template":
        return template_job(j[1:])
    if kind == "history":
        return history_job(j[1:])
    return workflow_job(j[1:])


def run(tier, seed):
    rep = Report(PROP, tier, seed, "model_checking")
    rep.rule = (
        "(a) every position to depth 4 and a boundary lattice to depth %d x 2 schemes x 4 formats; (b) each WTML-emitting workflow on synthetic inputs; "
        "(c) BFS over tile_fits call histories (fresh, then reuse/override sequences) per tiling method: transitions = calls executed, "
        "states = description states of the output directory; non-trivial = x != y position, or a history longer than one call"
        % (6 if tier == "quick" else 9)
    )
    rep.assumptions = [
        "HiPS needs Java and a downloaded Hipsgen.jar: outside the sandbox, not covered",
        "reuse is judged only for identical repeated calls (same inputs, same method), as the statement says",
    ]
    depth = 6 if tier == "quick" else 9
    jobs = []
    for scheme in ("L/Y/YX", "LXY"):
        for fmt in ("png", "jpg", "npy", "fits"):
            jobs.append(("template", scheme, fmt, depth))
    hd = 2 if tier == "quick" else 3
    jobs += [("history", "TAN", 3, 1, "reuse"), ("history", "TAN", 3, 1, "override"), ("history", "TAN", 3, 1, "override-other"), ("history", "TOAST", hd, 1), ("history", "TAN", hd, 2), ("history", "TOAST", 1 if tier == "quick" else 2, 2)]
    if tier == "thorough":
        jobs.append(("history", "TOAST", 1, 3))
    wfs = [
        ("tile-study", 700, 300, True),
        ("tile-study", 256, 256, False),
        ("tile-study", 257, 100, False),
        ("tile-study-fits", 300, 520),
        ("tile-allsky", 1, "plate-carree", True),
        ("tile-allsky", 2, "plate-carree-planet", True),
        ("tile-multi-tan", 2),
        ("pipeline", 700, 300),
        ("pipeline", 200, 150),
        ("tile-study", 200, 100, False),
        ("study-api", 700, 300, "rgb", "npy", "L/Y/YX"),
        ("study-api", 300, 520, "rgb", "jpg", "LXY"),
        ("study-api", 513, 300, "f32", "fits", "LXY"),
        ("study-api", 300, 300, "rgb", "png", "LXY"),
    ]
    if tier == "thorough":
        wfs += [("tile-study", 1025, 513, True), ("tile-allsky", 3, "plate-carree-galactic", True), ("tile-multi-tan", 3), ("pipeline", 300, 700), ("tile-study-fits", 1030, 200)]
    wfs += [("tile-wwtl", 700, 520, ".jpg"), ("tile-wwtl", 300, 200, ".png")]
    jobs += [("workflow",) + w for w in wfs]
    jobs = rng_order(jobs, seed)
    par.pmap(_job, jobs, rep)
    return rep.finish()


def replay(payload):
    r = payload["replay"]
    if "history" in r:
        p = history_job((r["method"], len(r["history"]) - 1, r["inputs"]) + ((r["history"][1],) if len(r["history"]) > 1 and r["inputs"] == 1 else ()))
    elif "workflow" in r:
        p = workflow_job(tuple(r["workflow"]))
    else:
        p = template_job((r["scheme"], r["format"], 6))
    for sig, (detail, _) in p.violations.items():
        print("REPLAY-FAIL", sig, detail[:400])
    return 1 if p.violations else 0
