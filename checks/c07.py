"""C07 -- tile filters never drop a tile holding data: filtered sampling leaves no holes.

Soundness oracle independent of the filters: a tile *holds data* iff at least one of its
65 536 reference pixel centres lies in the region; then the filter must accept it and every
ancestor on its path from level 1, and must leave the tile unmodified.  Regions: lat/lon
boxes (any origin, width beyond 2*pi, poles, seam), image footprints (WCS decides
membership) with a boundary-directed enumeration of deep tiles, chunks of chunked maps;
plus end-to-end filtered-vs-unfiltered sampling and chunk-by-chunk vs whole-map sampling.
"""
import itertools
import os
import shutil

import numpy as np

from vt import par
from vt.fixtures import scratch, quiet, rng_order
from vt.harness import Part, Report
from vt.ref import toastgeom as tg

PROP = "C07"
TWOPI = 2 * np.pi
_GRID = {}
THOROUGH = [False]


def grid(n, x, y, planetary):
    k = (n, x, y, planetary)
    if k not in _GRID:
        if len(_GRID) > 700:
            _GRID.clear()
        lon, lat = tg.lonlat(tg.pixel_grid(n, x, y, planetary))
        _GRID[k] = (lon.ravel(), lat.ravel())
    return _GRID[k]


def cs_of(planetary):
    from toasty.toast import ToastCoordinateSystem as T

    return T.PLANETARY if planetary else T.ASTRONOMICAL


def in_box(lon, lat, box, margin=1e-9):
    lo, hi, la0, la1 = box
    ok = (lat >= la0 + margin) & (lat <= la1 - margin)
    # some 2*pi shift of lon lies strictly inside [lo, hi]
    rel = (lon - lo) % TWOPI
    return ok & (rel >= margin) & (rel <= (hi - lo) - margin) if hi - lo < TWOPI else ok


def corners_snapshot(tile):
    return np.array(tile.corners, dtype=float).copy(), type(tile.corners), bool(tile.increasing), tuple(tile.pos)


def check_unmodified(tile, snap, bad):
    now = np.array(tile.corners, dtype=float)
    if not np.array_equal(now, snap[0]) or type(tile.corners) is not snap[1] or bool(tile.increasing) != snap[2] or tuple(tile.pos) != snap[3]:
        bad("filter-modifies-tile", "tile %r was modified by the filter" % (snap[3],))
        return False
    return True


# --- (1) boxes -------------------------------------------------------------------------------------


def boxes(tier):
    origins = [-3 * np.pi, -np.pi, -np.pi / 2, 0.0, 1.0, np.pi, 3 * np.pi / 2, TWOPI - 0.01, 5 * np.pi]
    widths = [0.01, 1.0, np.pi, TWOPI - 0.01, TWOPI, TWOPI + 1, 4 * np.pi] if tier == "thorough" else [0.01, np.pi, TWOPI + 1]
    lats = [-np.pi / 2, -1.0, -0.3, 0.0, 0.3, 1.0, np.pi / 2]
    bands = [(a, b) for a, b in itertools.combinations(lats, 2)]
    if tier == "quick":
        bands = [(-np.pi / 2, -1.0), (-1.0, -0.3), (-0.3, 0.3), (0.0, 0.3), (0.3, np.pi / 2), (-np.pi / 2, np.pi / 2)]
    return [(o, o + w, a, b) for o in origins for w in widths for (a, b) in bands]


def box_job(job):
    from toasty import toast
    from toasty import samplers as _s

    bxs, depth, planetary = job
    part = Part()
    _latlon_tile_filter = getattr(_s, "_latlon_tile_filter", None)
    if _latlon_tile_filter is None:
        # arbitrary boxes are only reachable through this non-public factory; chunk and image filters
        # (public) are checked elsewhere in this driver
        part.count("box_clause_skipped_private_api_absent")
        part.case(nontrivial=False)
        return part
    csn = "planetary" if planetary else "astronomical"
    tiles = {tuple(t.pos): t for t in toast.generate_tiles(depth, bottom_only=False, coordsys=cs_of(planetary))}
    other_tiles = {tuple(t.pos): t for t in toast.generate_tiles(min(depth, 2), bottom_only=False, coordsys=cs_of(not planetary))}
    for box_index, box in enumerate(bxs):
        cfg = {"box": [float(v) for v in box], "coordsys": csn}

        def bad(clause, detail):
            part.violation("box/%s/coordsys=%s" % (clause, csn), "%r: %s" % (cfg, detail), cfg)

        try:
            flt = _latlon_tile_filter(*box)
        except Exception as e:
            bad("constructor-raises:%s" % type(e).__name__, repr(e))
            continue
        # the filter object is first used on the OTHER coordinate system's tiles (an answer remembered per
        # position would be wrong for this system)
        if box_index % 2 == 0:
            for pos, t in other_tiles.items():
                try:
                    flt(t)
                except Exception:
                    pass
        verdict = {}
        for pos, t in tiles.items():
            snap = corners_snapshot(t)
            try:
                verdict[pos] = bool(flt(t))
            except Exception as e:
                bad("filter-raises:%s" % type(e).__name__, "%r: %r" % (pos, e))
                verdict[pos] = True
            check_unmodified(t, snap, bad)
        nhold = 0
        for pos in tiles:
            lon, lat = grid(*pos, planetary)
            holds = bool(in_box(lon, lat, box).any())
            part.case(nontrivial=holds)
            if not holds:
                continue
            nhold += 1
            q = pos
            while q[0] >= 1:
                if not verdict[q]:
                    which = "tile-holding-data-rejected" if q == pos else "ancestor-of-data-tile-rejected"
                    bad(which, "tile %r has pixel centres inside the box but the filter rejects %r" % (pos, q))
                    break
                q = (q[0] - 1, q[1] // 2, q[2] // 2)
        part.count("box_tile_pairs_holding_data", nhold)
    part.sample({"box": [float(v) for v in bxs[0]], "coordsys": csn, "depth": depth})
    return part


# --- (2) image footprints ----------------------------------------------------------------------------


def footprint_wcs(nx, ny, scale, rot, parity, center):
    from astropy.wcs import WCS

    crpix = None
    if len(center) == 4:
        # (ra, dec, crpix1, crpix2): the reference point (e.g. a pole) sits off-centre in the image
        center, crpix = center[:2], center[2:]
    w = _footprint_wcs(nx, ny, scale, rot, parity, center)
    if crpix is not None:
        w.wcs.crpix = list(crpix)
    return w


def _footprint_wcs(nx, ny, scale, rot, parity, center):
    from astropy.wcs import WCS

    w = WCS(naxis=2)
    w.wcs.ctype = ["RA---TAN", "DEC--TAN"]
    w.wcs.crval = list(center)
    t = np.radians(rot)
    R = np.array([[np.cos(t), -np.sin(t)], [np.sin(t), np.cos(t)]])
    w.wcs.cd = R @ np.diag([-scale, scale * (1 if parity > 0 else -1)])
    w.wcs.crpix = [nx / 2.0 + 0.5, ny / 2.0 + 0.5]
    return w


def inside_image(wcs, nx, ny, lon, lat, margin=1e-6):
    x, y = wcs.all_world2pix(np.degrees(lon), np.degrees(lat), 0)
    ok = np.isfinite(x) & np.isfinite(y)
    ok &= (x >= -0.5 + margin) & (x <= nx - 0.5 - margin) & (y >= -0.5 + margin) & (y <= ny - 0.5 - margin)
    # a TAN projection also maps the far hemisphere: keep only points within 90 deg of the centre
    c = tg.vec(np.radians(wcs.wcs.crval[0]), np.radians(wcs.wcs.crval[1]))
    p = tg.vec(lon, lat)
    ok &= (p @ c) > 0
    return ok


def locate(lon, lat, depth, planetary):
    """Reference point location: the tile of `depth` containing the point (descent)."""
    p = tg.vec(lon, lat)
    c, inc = tg.level1(planetary)
    pos = None
    for yy in range(2):
        for xx in range(2):
            if tg.contains(c[yy, xx], p, tol=1e-12):
                pos = (1, xx, yy)
    if pos is None:
        return None
    cur, curinc = c[pos[2], pos[1]][None, None], inc[pos[2], pos[1]][None, None]
    while pos[0] < depth:
        cc, ii = tg.subdivide(cur, curinc)
        found = None
        for yy in range(2):
            for xx in range(2):
                if tg.contains(cc[yy, xx], p, tol=1e-12):
                    found = (yy, xx)
        if found is None:
            return None
        yy, xx = found
        pos = (pos[0] + 1, 2 * pos[1] + xx, 2 * pos[2] + yy)
        cur, curinc = cc[yy, xx][None, None], ii[yy, xx][None, None]
    return pos


def footprint_job(job):
    from toasty import toast
    from toasty.pyramid import Pos
    from toasty.samplers import WcsSampler

    part = Part()
    for (nx, ny, scale, rot, parity, center) in job:
        cfg = {"image": (nx, ny), "scale_deg": scale, "rotation": rot, "parity": parity, "center": center}

        def bad(clause, detail, extra=None):
            c = dict(cfg)
            c.update(extra or {})
            narrow = "axis<16px" if min(nx, ny) < 16 else "axis>=16px"
            part.violation("footprint/%s/%s" % (clause, narrow), "%r: %s" % (c, detail), c)

        wcs = footprint_wcs(nx, ny, scale, rot, parity, center)
        data = np.arange(nx * ny, dtype=np.float32).reshape(ny, nx) + 1
        try:
            # a smaller image carrying an EQUAL WCS was filtered earlier in this process (a cut-out of the same
            # frame): what the filter knows about an image depends on its size too
            if nx >= 4 and ny >= 4:
                WcsSampler(np.ones((max(1, ny // 4), max(1, nx // 4)), dtype=np.float32), wcs.deepcopy()).filter()
            flt = WcsSampler(data, wcs).filter()
        except Exception as e:
            bad("filter-constructor-raises:%s" % type(e).__name__, repr(e))
            continue
        # probe points just inside the outer pixel edges and corners
        probes = []
        deltas = [0.02, 0.1, 0.3, 0.45] if THOROUGH[0] else [0.03, 0.3]
        along_x = sorted(set([-0.5 + 0.25, nx / 2.0 - 0.5, nx - 0.5 - 0.25])) if THOROUGH[0] else sorted(set([-0.5 + 0.25, nx - 0.5 - 0.25]))
        along_y = sorted(set([-0.5 + 0.25, ny / 2.0 - 0.5, ny - 0.5 - 0.25])) if THOROUGH[0] else sorted(set([ny / 2.0 - 0.5]))
        for dl in deltas:
            for ax in along_x:
                probes += [(ax, -0.5 + dl), (ax, ny - 0.5 - dl)]
            for ay in along_y:
                probes += [(-0.5 + dl, ay), (nx - 0.5 - dl, ay)]
            probes += [(-0.5 + dl, -0.5 + dl), (nx - 0.5 - dl, -0.5 + dl), (-0.5 + dl, ny - 0.5 - dl), (nx - 0.5 - dl, ny - 0.5 - dl)]
        probes += [(nx / 2.0 - 0.5, ny / 2.0 - 0.5)]
        # a celestial pole inside the image: the tiles right around it
        for pdec in (90.0, -90.0):
            try:
                ppx, ppy = wcs.all_world2pix(0.0, pdec, 0)
            except Exception:
                continue
            if np.isfinite(ppx) and np.isfinite(ppy) and -0.4 < ppx < nx - 0.6 and -0.4 < ppy < ny - 0.6:
                rr, dd = wcs.all_pix2world(float(ppx), float(ppy), 0)
                if abs(float(dd) - pdec) < 1e-6:
                    probes += [(float(ppx) + dx_, float(ppy) + dy_) for dx_, dy_ in ((0.0, 0.0), (0.05, 0.02), (-0.2, 0.1), (0.3, -0.3))]
        ra, dec = wcs.all_pix2world(np.array([p[0] for p in probes]), np.array([p[1] for p in probes]), 0)
        # depths at which a tile is about 3, 1 and 0.3 image pixels across
        def depth_for(tile_px):
            size = np.radians(scale * tile_px)
            return int(np.clip(np.ceil(np.log2((np.pi / 2) / size)) + 1, 1, 17))

        depths = sorted(set(depth_for(s) for s in (3.0, 1.0, 0.3)))
        tested = set()
        for (px, py), lon_d, lat_d in zip(probes, ra, dec):
            lon, lat = np.radians(lon_d) % TWOPI, np.radians(lat_d)
            for planetary in (False, True):
                for d in depths:
                    pos = locate(lon, lat, d, planetary)
                    if pos is None or (pos, planetary) in tested:
                        continue
                    tested.add((pos, planetary))
                    glon, glat = grid(*pos, planetary)
                    holds = bool(inside_image(wcs, nx, ny, glon, glat).any())
                    part.case(nontrivial=holds)
                    if not holds:
                        continue
                    part.count("footprint_tiles_holding_data")
                    q = pos
                    while q[0] >= 1:
                        t = toast.create_single_tile(Pos(*q), coordsys=cs_of(planetary))
                        snap = corners_snapshot(t)
                        ok = bool(flt(t))
                        check_unmodified(t, snap, lambda c, dd: bad(c, dd))
                        if not ok:
                            which = "tile-holding-data-rejected" if q == pos else "ancestor-of-data-tile-rejected"
                            bad(which, "tile %r (coordsys %s) has pixel centres inside the image (probe at image pixel (%.2f, %.2f)) but the filter rejects %r" % (pos, "planetary" if planetary else "astronomical", px, py, q), {"tile": pos})
                            break
                        q = (q[0] - 1, q[1] // 2, q[2] // 2)
        part.sample(cfg)
    return part


# --- (3) chunked maps ----------------------------------------------------------------------------------


class ChunkedMap(object):
    """Duck-typed chunked image over an in-memory array."""

    def __init__(self, data, gx, gy):
        self.data = data
        self.shape = data.shape
        h, w = data.shape[:2]
        xs = [round(i * w / gx) for i in range(gx + 1)]
        ys = [round(j * h / gy) for j in range(gy + 1)]
        self.specs = [(xs[i], ys[j], xs[i + 1] - xs[i], ys[j + 1] - ys[j]) for j in range(gy) for i in range(gx)]
        self.n_chunks = len(self.specs)

    def chunk_spec(self, i):
        return self.specs[i]

    def chunk_data(self, i):
        cx, cy, cw, ch = self.specs[i]
        return self.data[cy : cy + ch, cx : cx + cw]


def chunk_job(job):
    from toasty import toast
    from toasty.pyramid import PyramidIO, Pos
    from toasty.samplers import ChunkedPlateCarreeSampler, plate_carree_planet_sampler

    (w, h, gx, gy, depth) = job[:5]
    # how the per-chunk (filter, sampler) pairs are obtained and used: "in-turn" = the textbook loop; "prepared" = every
    # pair obtained first, then sampled in turn; "prepared-reversed" = obtained first, sampled last chunk first
    order = job[5] if len(job) > 5 else "in-turn"
    part = Part()
    cfg = {"map": (w, h), "grid": (gx, gy), "depth": depth}
    if order != "in-turn":
        cfg["order"] = order

    def bad(clause, detail):
        part.violation("chunks/%s" % clause, "%r: %s" % (cfg, detail), cfg)

    yy, xx = np.mgrid[0:h, 0:w]
    data = np.stack([(xx * 5 + 1) % 256, (yy * 9 + 3) % 256, (xx + yy) % 200 + 20], axis=-1).astype(np.uint8)
    cm = ChunkedMap(data, gx, gy)
    cs = cs_of(True)
    tiles = {tuple(t.pos): t for t in toast.generate_tiles(depth, bottom_only=False, coordsys=cs)}
    try:
        sampler = ChunkedPlateCarreeSampler(cm, planetary=True)
    except Exception as e:
        bad("constructor-raises:%s" % type(e).__name__, repr(e))
        return part
    # filter soundness per chunk
    for ic in range(cm.n_chunks if order == "in-turn" else 0):
        cx, cy, cw, ch = cm.chunk_spec(ic)
        box = (TWOPI * cx / w - np.pi, TWOPI * (cx + cw) / w - np.pi, np.pi / 2 - np.pi * (cy + ch) / h, np.pi / 2 - np.pi * cy / h)
        flt = sampler.filter(ic)
        for pos, t in tiles.items():
            lon, lat = grid(*pos, True)
            holds = bool(in_box(lon, lat, box).any())
            part.case(nontrivial=holds)
            if holds:
                q = pos
                while q[0] >= 1:
                    if not flt(tiles[q]):
                        bad("tile-holding-chunk-data-rejected", "chunk %d (%r): tile %r has pixel centres in the chunk but %r is rejected" % (ic, cm.chunk_spec(ic), pos, q))
                        break
                    q = (q[0] - 1, q[1] // 2, q[2] // 2)
    # end to end: all chunks one after another = whole-map sampling
    with scratch("c07c") as d:
        pa = PyramidIO(os.path.join(d, "chunks"), default_format="png")
        pb = PyramidIO(os.path.join(d, "whole"), default_format="png")
        try:
            with quiet():
                if order == "in-turn":
                    for ic in range(cm.n_chunks):
                        toast.sample_layer_filtered(pa, sampler.filter(ic), sampler.sampler(ic), depth, coordsys=cs, parallel=1)
                else:
                    pairs = [(sampler.filter(ic), sampler.sampler(ic)) for ic in range(cm.n_chunks)]
                    for flt_i, smp_i in (pairs if order == "prepared" else pairs[::-1]):
                        toast.sample_layer_filtered(pa, flt_i, smp_i, depth, coordsys=cs, parallel=1)
                toast.sample_layer(pb, plate_carree_planet_sampler(data), depth, coordsys=cs, parallel=1)
        except Exception as e:
            bad("sampling-raises:%s" % type(e).__name__, repr(e))
            return part
        for y in range(2**depth):
            for x in range(2**depth):
                part.case(nontrivial=True)
                a = pa.read_image(Pos(depth, x, y))
                b = pb.read_image(Pos(depth, x, y))
                if a is None:
                    bad("tile-missing-after-all-chunks", "tile (%d,%d,%d) was never written" % (depth, x, y))
                    continue
                aa, bb = np.asarray(a.asarray()), np.asarray(b.asarray())
                if aa.shape[-1] == 4:
                    holes = int((aa[..., 3] == 0).sum())
                    if holes:
                        bad("holes-after-all-chunks", "tile (%d,%d,%d) has %d undefined pixels after sampling every chunk" % (depth, x, y, holes))
                        continue
                    aa = aa[..., :3]
                if bb.shape[-1] == 4:
                    bb = bb[..., :3]
                diff = (aa != bb).any(axis=-1)
                if diff.any():
                    # pixel centres lying (within rounding) on a source-pixel boundary may resolve either way
                    glon, glat = grid(depth, x, y, True)
                    fx = (((glon.reshape(256, 256) + np.pi) % TWOPI) / TWOPI * w) % 1.0
                    fy = ((np.pi / 2 - glat.reshape(256, 256)) / np.pi * h) % 1.0
                    onb = (np.minimum(fx, 1 - fx) < 1e-6) | (np.minimum(fy, 1 - fy) < 1e-6)
                    neq = int((diff & ~onb).sum())
                    part.count("chunk_pixels_on_source_boundary", int((diff & onb).sum()))
                    if neq:
                        bad("chunked-differs-from-whole-map", "tile (%d,%d,%d): %d pixels off any source-pixel boundary differ from whole-map sampling" % (depth, x, y, neq))
    part.sample(cfg)
    return part


# --- (4) end to end: filtered vs unfiltered sampling of an image ------------------------------------------


def e2e_job(job):
    from toasty import toast
    from toasty.pyramid import PyramidIO, Pos
    from toasty.samplers import WcsSampler

    (nx, ny, scale, rot, parity, center, depth, planetary) = job[:8]
    via_builder = len(job) > 8 and job[8]
    fmt = job[9] if len(job) > 9 else "npy"
    values = job[10] if len(job) > 10 else "positive"
    part = Part()
    cfg = {"image": (nx, ny), "scale_deg": scale, "rotation": rot, "parity": parity, "center": center, "depth": depth, "coordsys": "planetary" if planetary else "astronomical"}
    if via_builder:
        cfg["entry"] = "Builder.toast_base"
    if fmt != "npy":
        cfg["format"] = fmt
    if values != "positive":
        cfg["values"] = values
    part.case(nontrivial=True)

    def bad(clause, detail):
        part.violation("end-to-end/%s%s" % (clause, "/via-builder" if via_builder else ""), "%r: %s" % (cfg, detail), cfg)

    wcs = footprint_wcs(nx, ny, scale, rot, parity, center)
    data = (np.arange(nx * ny, dtype=np.float32).reshape(ny, nx) % 97) + 1
    if values == "zero":
        data = np.zeros_like(data)  # exactly 0.0 everywhere: a defined value like any other
    elif values == "signed":
        data = data - 49.0  # negative, zero and positive values
    ws = WcsSampler(data, wcs)
    with scratch("c07e") as d:
        pf = PyramidIO(os.path.join(d, "f"), default_format=fmt)
        pu = PyramidIO(os.path.join(d, "u"), default_format=fmt)
        try:
            with quiet():
                if via_builder:
                    # the entry point the FITS tiler and tile-allsky use (filter passed as a keyword)
                    from toasty.builder import Builder

                    Builder(pf).toast_base(ws.sampler(), depth, is_planet=planetary, tile_filter=ws.filter(), parallel=1)
                else:
                    toast.sample_layer_filtered(pf, ws.filter(), ws.sampler(), depth, coordsys=cs_of(planetary), parallel=1)
                toast.sample_layer(pu, ws.sampler(), depth, coordsys=cs_of(planetary), parallel=1)
        except Exception as e:
            bad("raises:%s" % type(e).__name__, repr(e))
            return part
        ndata = 0
        for y in range(2**depth):
            for x in range(2**depth):
                u = pu.read_image(Pos(depth, x, y))
                f = pf.read_image(Pos(depth, x, y))
                if u is None:
                    if f is not None and np.isfinite(np.asarray(f.asarray())).any():
                        bad("extra-data", "filtered sampling wrote defined pixels in tile (%d,%d,%d) that unfiltered sampling leaves empty" % (depth, x, y))
                    continue
                ndata += 1
                if f is None:
                    bad("hole", "tile (%d,%d,%d) holds data (%d defined pixels) but filtered sampling did not produce it" % (depth, x, y, int(np.isfinite(np.asarray(u.asarray())).sum())))
                    continue
                if not np.array_equal(np.asarray(u.asarray()), np.asarray(f.asarray()), equal_nan=True):
                    bad("pixels-differ", "tile (%d,%d,%d) differs between filtered and unfiltered sampling" % (depth, x, y))
        part.count("e2e_tiles_with_data", ndata)
    part.sample(cfg)
    return part


def _job(j):
    THOROUGH[0] = j[2] if len(j) > 2 else False
    return {"box": box_job, "footprint": footprint_job, "chunk": chunk_job, "e2e": e2e_job}[j[0]](j[1])


def footprints(tier):
    sizes = [(1, 1), (2, 2), (3, 40), (40, 3), (15, 15), (16, 16), (31, 33), (64, 64)]
    rots = [0.0, 30.0, 45.0, 90.0, 200.0]
    centers = [(0.0, 0.0), (180.0, 30.0), (10.0, 89.5), (200.0, -89.5), (359.9, 60.0)]
    out = []
    # non-square images containing a pole far along the long axis (beyond the short axis' length)
    for (nx, ny, cx, cy) in [(64, 24, 50.3, 12.2), (24, 64, 12.2, 50.3), (64, 24, 8.4, 11.7)]:
        for dec in (90.0, -90.0):
            for parity in (1, -1):
                out.append((nx, ny, 1.0, 0.0 if parity > 0 else 30.0, parity, (0.0, dec, cx, cy)))
    # long thin strips whose long side bends around a pole lying just outside the image (the latitude extremum
    # sits in the middle of a side, not at a corner)
    for (nx, ny, rot) in [(4, 120, 90.0), (120, 4, 0.0), (5, 90, 270.0), (90, 5, 180.0)]:
        for dec in (86.0, -86.0, 84.5):
            for parity in (1, -1):
                out.append((nx, ny, 1.0, rot, parity, (40.0, dec)))
    k = 0
    for (nx, ny) in sizes:
        for scale in (0.02, 0.6):
            if scale * max(nx, ny) > 40:
                continue
            for rot in rots:
                for parity in (1, -1):
                    for center in centers:
                        k += 1
                        if tier == "quick" and (k % 7) != 3:
                            continue  # a fixed 1/7 stride of the lattice (deterministic, not random)
                        out.append((nx, ny, scale, rot, parity, center))
    return out


def run(tier, seed):
    rep = Report(PROP, tier, seed, "exploration")
    bdepth = 3 if tier == "quick" else 4
    rep.rule = (
        "boxes: %d boxes (9 longitude origins incl. negative and > 2pi, widths up to 4pi, pole-touching bands) x every tile to depth %d x 2 coordinate systems, "
        "tile holds data iff one of its 65 536 reference pixel centres is inside; footprints: %d TAN images (sizes 1x1..64x64 incl. axes < 16 px, 2 scales, 5 rotations, "
        "both parities, centres at RA 0/180, near both poles, across RA=0) probed by deep tiles containing points 0.02-0.45 image pixels inside every edge and corner; "
        "chunk grids of planetary maps incl. ragged ones, filter soundness + chunk-by-chunk vs whole-map sampling; filtered vs unfiltered sampling end to end; "
        "non-trivial = (region, tile) pairs where the tile holds data" % (len(boxes(tier)), bdepth, len(footprints(tier)))
    )
    rep.assumptions = ["WCS with distortion terms not covered; the continuum between lattice points is not covered", "the compiled box test is exercised as built (Cython unavailable)", "a pixel centre within 1e-9 rad (boxes) / 1e-6 px (images) of the region boundary is not counted as inside"]
    jobs = []
    bl = rng_order(boxes(tier), seed)
    nb = 12
    for planetary in (False, True):
        for i in range(nb):
            if bl[i::nb]:
                jobs.append(("box", (bl[i::nb], bdepth, planetary)))
    fl = rng_order(footprints(tier), seed)
    nf = 40
    for i in range(nf):
        if fl[i::nf]:
            jobs.append(("footprint", fl[i::nf], tier == "thorough"))
    # the last three: coarse maps cut in thirds / fifths, whose chunk edges fall inside tiles within half a map pixel
    # of a tile edge (a filter box measured between pixel centres instead of pixel edges loses the rim)
    chunks = [(8, 4, 1, 1, 1), (16, 8, 2, 1, 1), (24, 12, 2, 2, 2), (30, 14, 3, 2, 2), (12, 10, 4, 2, 3), (15, 9, 5, 3, 2), (9, 6, 3, 3, 3)]
    if tier == "thorough":
        chunks += [(96, 48, 4, 4, 2), (50, 26, 3, 3, 3), (17, 9, 4, 4, 2)]
    for c in chunks:
        jobs.append(("chunk", c))
    for c, order in [((16, 8, 2, 1, 1), "prepared"), ((24, 12, 2, 2, 2), "prepared-reversed"), ((15, 9, 5, 3, 2), "prepared")] + ([((12, 10, 4, 2, 3), "prepared"), ((9, 6, 3, 3, 3), "prepared-reversed")] if tier == "thorough" else []):
        jobs.append(("chunk", c + (order,)))
    e2e = [(40, 30, 0.5, 30.0, 1, (0.0, 10.0), 3, False), (16, 16, 0.6, 45.0, -1, (180.0, 85.0), 3, False), (15, 15, 0.6, 0.0, 1, (40.0, -20.0), 3, True)]
    if tier == "thorough":
        e2e += [(64, 64, 0.3, 200.0, 1, (359.9, 60.0), 4, False), (3, 40, 0.6, 90.0, -1, (100.0, 0.0), 4, True), (2, 2, 0.6, 30.0, 1, (0.0, 0.0), 4, False)]
    for c in e2e:
        jobs.append(("e2e", c))
    for c in [(15, 15, 0.6, 0.0, 1, (40.0, -20.0), 3, True), (40, 30, 0.5, 30.0, 1, (0.0, 10.0), 3, False), (16, 16, 0.6, 45.0, -1, (180.0, 85.0), 3, True)]:
        jobs.append(("e2e", c + (True,)))
    # bottom-up tile format: the filtered (updating) and unfiltered (clobbering) routes reverse rows separately
    for c in [(40, 30, 0.5, 30.0, 1, (0.0, 10.0), 3, False), (15, 15, 0.6, 0.0, 1, (40.0, -20.0), 3, True)]:
        jobs.append(("e2e", c + (False, "fits")))
        jobs.append(("e2e", c + (True, "fits")))
    # images whose values are exactly zero / of both signs (zero is a defined value)
    for c in [(40, 30, 0.5, 30.0, 1, (0.0, 10.0), 3, False), (15, 15, 0.6, 0.0, 1, (40.0, -20.0), 3, True)]:
        for v in ("zero", "signed"):
            jobs.append(("e2e", c + (False, "npy", v)))
            jobs.append(("e2e", c + (True, "fits", v)))
    par.pmap(_job, jobs, rep)
    return rep.finish()


def replay(payload):
    r = payload["replay"]
    if "box" in r:
        p = box_job(([tuple(r["box"])], 3, r["coordsys"] == "planetary"))
    elif "grid" in r:
        p = chunk_job((r["map"][0], r["map"][1], r["grid"][0], r["grid"][1], r["depth"]) + ((r["order"],) if r.get("order") else ()))
    elif "depth" in r:
        p = e2e_job((r["image"][0], r["image"][1], r["scale_deg"], r["rotation"], r["parity"], tuple(r["center"]), r["depth"], r["coordsys"] == "planetary", r.get("entry") == "Builder.toast_base", r.get("format", "npy"), r.get("values", "positive")))
    else:
        p = footprint_job([(r["image"][0], r["image"][1], r["scale_deg"], r["rotation"], r["parity"], tuple(r["center"]))])
    for sig, (detail, _) in p.violations.items():
        print("REPLAY-FAIL", sig, detail[:400])
    return 1 if p.violations else 0
