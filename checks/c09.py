"""C09 -- tiling images on a common TAN grid equals tiling the assembled mosaic.

E2: mosaics x decompositions into 2-3 sub-images (cuts at tile-boundary-adjacent
positions, overlaps with agreeing data, NaN borders) x both input parities (uniformly) x
all input orders x tile formats (fits bottom-up, npy top-down): MultiTanProcessor versus
pasting into one image and tiling that; deepest-level tiles pixel-identical, data-set
description equal, no lock files.  E1: the multi-TAN tiling stage under the virtual
scheduler with lock/read/write choice points, all interleavings, terminal tree = serial.
"""
import itertools
import os
import shutil
import tempfile

import numpy as np

from vt import par, stages
from vt.fixtures import scratch, quiet, rng_order, scratch_root
from vt.harness import Part, Report
from vt.monitors import Monitor

PROP = "C09"


def mosaic_wcs(w, h, rot=20.0, scale=1.3e-3):
    """Negative-parity (top-down, JPEG-like) rotated TAN WCS for a w x h mosaic."""
    from astropy.wcs import WCS

    wcs = WCS(naxis=2)
    wcs.wcs.ctype = ["RA---TAN", "DEC--TAN"]
    wcs.wcs.crval = [83.0, -5.0]
    t = np.radians(rot)
    R = np.array([[np.cos(t), -np.sin(t)], [np.sin(t), np.cos(t)]])
    wcs.wcs.cd = R @ np.diag([-scale, -scale])
    wcs.wcs.crpix = [w / 2.0 + 0.5, h / 2.0 + 0.5]
    return wcs


def sub_wcs(wcs, x0, y0):
    w = wcs.deepcopy()
    w.wcs.crpix = [wcs.wcs.crpix[0] - x0, wcs.wcs.crpix[1] - y0]
    return w


def flip(wcs, data):
    """The same image stored bottom-up."""
    h = data.shape[0]
    w = wcs.deepcopy()
    cd = np.array(w.wcs.cd)
    cd[:, 1] *= -1
    w.wcs.cd = cd
    w.wcs.crpix = [w.wcs.crpix[0], h + 1 - w.wcs.crpix[1]]
    return w, data[::-1].copy()


def mosaic_data(w, h):
    yy, xx = np.mgrid[0:h, 0:w]
    return (yy * 1000.0 + xx + 0.5).astype(np.float32)


def decompositions(w, h, tier):
    """Lists of (x0, y0, x1, y1, nan_border) rectangles covering the mosaic."""
    out = []
    cuts = [100, 256, 257] if tier == "thorough" else [100, 257]
    for c in cuts:
        if c < w - 1:
            out.append(("vcut%d" % c, [(0, 0, c, h, 0), (c, 0, w, h, 0)]))
            out.append(("vcut%d-overlap" % c, [(0, 0, min(w, c + 10), h, 0), (c, 0, w, h, 0)]))
            out.append(("vcut%d-nanborder" % c, [(0, 0, min(w, c + 10), h, 5), (c - 5 if c >= 5 else 0, 0, w, h, 0)]))
        if c < h - 1:
            out.append(("hcut%d" % c, [(0, 0, w, c, 0), (0, c, w, h, 0)]))
            out.append(("hcut%d-overlap-nan" % c, [(0, 0, w, min(h, c + 10), 5), (0, c - 5 if c >= 5 else 0, w, h, 0)]))
    c1, c2 = (100, 257) if w > 260 else (90, 200)
    if c2 < w - 1:
        out.append(("three", [(0, 0, c1 + 8, h, 0), (c1, 0, c2 + 8, h, 4), (c2, 0, w, h, 0)]))
    out.append(("quad-l", [(0, 0, w // 2 + 6, h // 2 + 6, 0), (w // 2, 0, w, h, 0), (0, h // 2, w // 2 + 6, h, 3)]))
    # an input lying strictly inside another one (every order: the contained one first makes the later input extend
    # the union on both sides of both axes at once), and three nested frames
    out.append(("contained", [(w // 4, h // 4, w // 2 + 20, h // 2 + 30, 0), (0, 0, w, h, 0)]))
    # equal chips side by side, the middle one without a single defined pixel (an exposure that failed)
    t = w // 3
    out.append(("grid-empty-nan", [(0, 0, t, h, 0), (t, 0, 2 * t, h, max(t, h)), (2 * t, 0, w, h, 0)]))
    out.append(("nested3-nan", [(w // 3, h // 3, w // 2 + 10, h // 2 + 10, 0), (w // 6, h // 8, w - 40, h - 30, 3), (0, 0, w, h, 3)]))
    # undefined bands on ONE side only (a read-out fault at the top of a chip, vignetting on one edge), a little thicker
    # than the share of the mosaic that the outermost tile row / column holds; border = (top, bottom, left, right)
    from vt.ref import tiling as _rt

    gx0, gy0 = _rt.offsets(w, h)
    sy = min(256 - gy0 % 256 + 6, h // 2 - 1)
    sx = min(256 - gx0 % 256 + 6, w // 2 - 1)
    c = 100
    out.append(("vcut%d-nan-top-band" % c, [(0, 0, c + 10, h, 0), (c, 0, w, h, (sy, 0, 0, 0))]))
    out.append(("vcut%d-nan-bottom-band" % c, [(0, 0, c + 10, h, (0, sy, 0, 0)), (c, 0, w, h, 0)]))
    out.append(("hcut%d-nan-side-bands" % c, [(0, 0, w, c + 10, (0, 0, sx, 0)), (0, c, w, h, (0, 0, 0, sx))]))
    return out


def _border(nb):
    """nan_border as (top, bottom, left, right) row/column counts (an int = the same on all four sides)."""
    return (nb, nb, nb, nb) if isinstance(nb, int) else tuple(nb)


def make_inputs(M, wcs, rects, bottom_up):
    from toasty.image import Image

    imgs = []
    for k, (x0, y0, x1, y1, nb) in enumerate(rects):
        # bottom_up: True / False for all inputs, or "mixed" / "mixed2" = alternating storage parities
        bu = bottom_up if isinstance(bottom_up, bool) else ((k % 2 == 0) if bottom_up == "mixed" else (k % 2 == 1))
        d = M[y0:y1, x0:x1].copy()
        bt, bb, bl, br = _border(nb)
        d[:bt, :] = np.nan
        d[d.shape[0] - bb :, :] = np.nan
        d[:, :bl] = np.nan
        d[:, d.shape[1] - br :] = np.nan
        w = sub_wcs(wcs, x0, y0)
        if bu:
            w, d = flip(w, d)
        imgs.append(Image.from_array(d, wcs=w, default_format="fits"))
    return imgs


def assembled(M, rects):
    """What pasting the inputs into one image gives: defined wherever some input is defined."""
    A = np.full(M.shape, np.nan, dtype=M.dtype)
    for (x0, y0, x1, y1, nb) in rects:
        sub = M[y0:y1, x0:x1]
        m = np.ones(sub.shape, bool)
        bt, bb, bl, br = _border(nb)
        m[:bt, :] = False
        m[m.shape[0] - bb :, :] = False
        m[:, :bl] = False
        m[:, m.shape[1] - br :] = False
        A[y0:y1, x0:x1][m] = sub[m]
    return A


def read_deepest(root, fmt, level, ranges=None):
    from toasty.pyramid import PyramidIO, Pos

    pio = PyramidIO(root, default_format=fmt)
    out = {}
    for y in range(2**level):
        for x in range(2**level):
            img = pio.read_image(Pos(level, x, y))
            if img is not None:
                a = np.asarray(img.asarray())
                out[(x, y)] = a[::-1] if fmt == "fits" else a
                if ranges is not None and fmt == "fits":
                    ranges[(x, y)] = (img.data_min, img.data_max)
    return out


IMGSET_ATTRS = ["tile_levels", "projection", "center_x", "center_y", "base_degrees_per_tile", "rotation_deg", "offset_x", "offset_y", "width_factor", "bottoms_up", "url", "file_type"]


def reference_route(d, A, wcs, fmt):
    from toasty.builder import Builder
    from toasty.image import Image
    from toasty.pyramid import PyramidIO
    from toasty.study import StudyTiling

    root = os.path.join(d, "ref")
    shutil.rmtree(root, ignore_errors=True)
    pio = PyramidIO(root, default_format=fmt)
    h, w = A.shape
    b = Builder(pio)
    tiling = StudyTiling(w, h)
    tiling.apply_to_imageset(b.imgset)
    b.apply_wcs_info(wcs, w, h)
    tiling.tile_image(Image.from_array(A.copy(), wcs=wcs.deepcopy(), default_format="fits"), pio)
    return root, b


def serial_case(d, size, dname, rects, bottom_up, order, fmt, part):
    from toasty.builder import Builder
    from toasty.multi_tan import MultiTanProcessor
    from toasty.pyramid import PyramidIO

    w, h = size
    cfg = {"mosaic": size, "decomposition": dname, "bottom_up_inputs": bottom_up, "order": list(order), "format": fmt}
    part.case(nontrivial=("overlap" in dname or "nan" in dname or list(order) != sorted(order) or bottom_up is not False))

    def bad(clause, detail):
        part.violation("%s/%s" % (clause, fmt), "%r: %s" % (cfg, detail), cfg)

    M = mosaic_data(w, h)
    wcs = mosaic_wcs(w, h)
    imgs = make_inputs(M, wcs, rects, bottom_up)
    imgs = [imgs[i] for i in order]
    A = assembled(M, rects)
    root = os.path.join(d, "mt")
    shutil.rmtree(root, ignore_errors=True)
    # the serial route runs as in a plain interactive session: no batch-system variable (SLURM_NPROCS is only
    # set by this framework to bound toasty's *default* parallelism elsewhere; here parallel=1 is explicit)
    slurm = os.environ.pop("SLURM_NPROCS", None)
    try:
        with quiet():
            ref_root, ref_b = reference_route(d, A, wcs, fmt)
            pio = PyramidIO(root, default_format=fmt)
            b = Builder(pio)
            if dname.endswith("@files"):
                # the inputs as FITS files read through toasty's own collection class
                from astropy.io import fits
                from toasty.collection import SimpleFitsCollection

                paths = []
                for k, im in enumerate(imgs):
                    pth = os.path.join(d, "in%d.fits" % k)
                    fits.PrimaryHDU(np.asarray(im.asarray()), header=im.wcs.to_header()).writeto(pth, overwrite=True)
                    paths.append(pth)
                coll = SimpleFitsCollection(paths)
            else:
                coll = stages.ListCollection(imgs)
            proc = MultiTanProcessor(coll)
            proc.compute_global_pixelization(b)
            proc.tile(pio, parallel=1)
    except Exception as e:
        bad("raises:%s" % type(e).__name__, repr(e))
        return
    finally:
        if slurm is not None:
            os.environ["SLURM_NPROCS"] = slurm
    lev = ref_b.imgset.tile_levels
    diffs = []
    for a in IMGSET_ATTRS:
        x, y = getattr(b.imgset, a, None), getattr(ref_b.imgset, a, None)
        same = (abs(x - y) <= 1e-9 * max(1.0, abs(x), abs(y))) if isinstance(x, float) and isinstance(y, float) else x == y
        if not same:
            diffs.append("%s: multi-TAN %r, mosaic %r" % (a, x, y))
    if diffs:
        bad("description-differs", "; ".join(diffs[:5]))
    if b.imgset.tile_levels != lev:
        return
    rg, rw = {}, {}
    got = read_deepest(root, fmt, lev, rg)
    want = read_deepest(ref_root, fmt, lev, rw)
    for k in sorted(set(rg) & set(rw)):
        a, b = rg[k], rw[k]
        if (a[0] is None) != (b[0] is None) or (a[0] is not None and not (np.isclose(a[0], b[0], rtol=1e-6) and np.isclose(a[1], b[1], rtol=1e-6))):
            bad("tile-data-range-differs", "tile (%d,%d): DATAMIN/DATAMAX %r in the multi-TAN tile, %r when tiling the mosaic" % (k[0], k[1], a, b))
            break
    if set(got) != set(want):
        bad("tile-set", "multi-TAN tiles %r, mosaic tiles %r" % (sorted(set(got) - set(want))[:3], sorted(set(want) - set(got))[:3]))
    for k in sorted(set(got) & set(want)):
        if not np.array_equal(got[k], want[k], equal_nan=True):
            neq = ~((got[k] == want[k]) | (np.isnan(got[k]) & np.isnan(want[k])))
            r, c = np.argwhere(neq)[0]
            lost = int((np.isnan(got[k]) & ~np.isnan(want[k])).sum())
            clause = "defined-pixel-lost" if lost else "tile-pixels"
            bad(clause, "tile (%d,%d) differs at %d pixels (%d defined in the mosaic but undefined here), first (row %d, col %d): %r vs %r" % (k[0], k[1], int(neq.sum()), lost, r, c, float(got[k][r, c]), float(want[k][r, c])))
            break
    locks = [f for f in stages._walk_files(root) if f.endswith(".lock")]
    if locks:
        bad("lock-files-remain", repr(locks[:3]))


def blankval_case(d, blank, order, part):
    """Inputs read from FITS files with a blank value marking undefined borders (the --blankval option),
    overlapping defined pixels of the neighbour: same result as tiling the assembled mosaic."""
    from astropy.io import fits
    from toasty import collection
    from toasty.builder import Builder
    from toasty.multi_tan import MultiTanProcessor
    from toasty.pyramid import PyramidIO

    size = (300, 280)
    w, h = size
    cfg = {"blankval": blank, "order": list(order), "mosaic": size}
    part.case(nontrivial=True)

    def bad(clause, detail):
        part.violation("%s/fits" % clause, "%r: %s" % (cfg, detail), cfg)

    M = mosaic_data(w, h)
    wcs = mosaic_wcs(w, h)
    rects = [(0, 0, 170, h, 12), (150, 0, w, h, 12)]
    paths = []
    for k, (x0, y0, x1, y1, nb) in enumerate(rects):
        dsub = M[y0:y1, x0:x1].copy()
        bv = float(blank)
        dsub[:nb, :] = bv
        dsub[-nb:, :] = bv
        dsub[:, :nb] = bv
        dsub[:, -nb:] = bv
        ww, dd = flip(sub_wcs(wcs, x0, y0), dsub)
        p = os.path.join(d, "bv%d.fits" % k)
        fits.PrimaryHDU(dd, header=ww.to_header()).writeto(p, overwrite=True)
        paths.append(p)
    A = assembled(M, rects)
    root = os.path.join(d, "bv")
    shutil.rmtree(root, ignore_errors=True)
    try:
        with quiet():
            ref_root, ref_b = reference_route(d, A, wcs, "fits")
            if isinstance(blank, str):
                # the command-line route: --blankval arrives as text and is parsed by the collection loader
                import argparse

                ns = argparse.Namespace(hdu_index=None, wcs_key=None, blankval=blank)
                coll = collection.CollectionLoader.create_from_args(ns).load_paths([paths[i] for i in order])
            else:
                coll = collection.load([paths[i] for i in order], blankval=blank)
            pio = PyramidIO(root, default_format="fits")
            b = Builder(pio)
            proc = MultiTanProcessor(coll)
            proc.compute_global_pixelization(b)
            proc.tile(pio, parallel=1)
    except Exception as e:
        bad("blankval-raises:%s" % type(e).__name__, repr(e))
        return
    lev = ref_b.imgset.tile_levels
    got = read_deepest(root, "fits", lev)
    want = read_deepest(ref_root, "fits", lev)
    for k in sorted(set(got) | set(want)):
        if k not in got or k not in want or not np.array_equal(got[k], want[k], equal_nan=True):
            n = -1 if (k not in got or k not in want) else int((~((got[k] == want[k]) | (np.isnan(got[k]) & np.isnan(want[k])))).sum())
            bad("blankval-tile-pixels", "tile (%d,%d) differs from the mosaic's at %d pixels (blank value %r not treated as undefined?)" % (k[0], k[1], n, blank))
            break


def _serial_job(cases):
    part = Part()
    with scratch("c09") as d:
        for c in cases:
            if c[0] == "blankval":
                blankval_case(d, c[1], c[2], part)
                continue
            serial_case(d, *c, part=part)
        first = [c for c in cases if c[0] != "blankval"]
        if first:
            part.sample({"mosaic": first[0][0], "decomposition": first[0][1], "rects": first[0][2], "bottom_up": first[0][3], "order": first[0][4], "format": first[0][5]})
    return part


# --- E1 ---------------------------------------------------------------------------------------


class MultiTanTree(stages.StageHarness):
    """The multi-TAN stage on a decomposition whose inputs share tiles; compares trees."""

    stage = "multi_tan_tiling"
    io_points = True
    fmt = "fits"

    def expected_items(self):
        return []

    def _inputs(self):
        w, h = self.size
        M = mosaic_data(w, h)
        return make_inputs(M, mosaic_wcs(w, h), self.rects, self.bottom_up)

    def _proc(self, root):
        from toasty.builder import Builder
        from toasty.multi_tan import MultiTanProcessor
        from toasty.pyramid import PyramidIO

        pio = PyramidIO(root, default_format=self.fmt)
        proc = MultiTanProcessor(stages.ListCollection(self._inputs()))
        with quiet():
            proc.compute_global_pixelization(Builder(pio))
        return proc, pio

    def _tree(self, root):
        from toasty.image import ImageLoader

        out = {}
        for f in stages._walk_files(root):
            if f.endswith("." + self.fmt):
                out[f] = np.asarray(ImageLoader().load_path(os.path.join(root, f)).asarray())
        return out

    def fresh(self):
        if getattr(self, "_ser", None) is None:
            r = tempfile.mkdtemp(prefix="verif-c09s-", dir=scratch_root())
            try:
                proc, pio = self._proc(r)
                with quiet():
                    proc.tile(pio, parallel=1)
                self._ser = self._tree(r)
            finally:
                shutil.rmtree(r, ignore_errors=True)
        root = tempfile.mkdtemp(prefix="verif-c09-", dir=scratch_root())
        proc, pio = self._proc(root)
        W = self.W

        def main():
            proc.tile(pio, parallel=W)

        return main, Monitor(), root

    def cleanup(self, root):
        shutil.rmtree(root, ignore_errors=True)

    def at_terminal(self, sched, mon):
        viol = []
        main = sched.main()
        if main.outcome[0] != "return":
            return [("stage-raised", "%s: %s" % (main.outcome[1], main.outcome[2]))], ("raise",)
        got = self._tree(sched.root)
        ok = set(got) == set(self._ser) and all(np.array_equal(got[k], self._ser[k], equal_nan=True) for k in got)
        if not ok:
            viol.append(("parallel-result-differs-from-serial", "tiles differ from the serial multi-TAN result"))
        locks = [f for f in stages._walk_files(sched.root) if f.endswith(".lock")]
        if locks:
            viol.append(("lock-files-remain", repr(locks[:3])))
        if [p.name for p in sched.procs[1:] if not p.done]:
            viol.append(("returned-before-workers-exited", ""))
        return viol, ("same" if ok else "differs",)


stages.HARNESSES["MultiTanTree"] = MultiTanTree


def _job(j):
    if j[0] == "e1":
        return stages.explore_to_part(j[1], PROP)
    return _serial_job(j[1])


def run(tier, seed):
    rep = Report(PROP, tier, seed, "model_checking")
    # (600, 560) fills whole 256-pixel tiles (inputs that cover a complete tile take other code paths)
    # (518, 300): the mosaic is centred in a 1024 canvas at x = 253, so its 3-5 pixel undefined borders are ALL that the
    # outer tile columns receive (positions that are locked and updated but never stored)
    sizes = [(300, 280), (257, 300), (600, 560), (518, 300)] + ([(520, 260)] if tier == "thorough" else [])
    rep.rule = (
        "E2: mosaics %r x decompositions (cuts at 100/256/257, 10-pixel overlaps with agreeing data, 3-5 pixel NaN borders, 3-way splits) x both input parities "
        "(uniform) x all input orders x {fits, npy}: MultiTanProcessor vs tiling the pasted mosaic. E1: the multi-TAN stage with shared tiles under the "
        "virtual scheduler (lock/read/write choice points); states = canonical states; non-trivial = overlap, NaN border, permuted order or bottom-up inputs" % (sizes,)
    )
    rep.assumptions = stages.ASSUMPTIONS + ["collections mixing bottom-up and top-down inputs are covered with CD-matrix headers (with CDELT/PC-form headers toasty refuses them up front as 'not on uniform WCS grid', which is a refusal, not a wrong result)", "inputs share one pixel grid (integer offsets); overlapping inputs agree"]
    cases = []
    for size in sizes:
        for dname, rects in decompositions(size[0], size[1], tier):
            for bottom_up in (True, False, "mixed", "mixed2"):
                if tier == "quick" and bottom_up == "mixed2" and len(rects) < 3:
                    continue
                for order in itertools.permutations(range(len(rects))):
                    for fmt in ("fits", "npy"):
                        if tier == "quick" and fmt == "npy" and (len(rects) > 2 or bottom_up is not True):
                            continue
                        if tier == "quick" and size[0] >= 600 and not ("nan" in dname or dname in ("three", "quad-l")):
                            continue
                        if tier == "quick" and size[0] == 518 and not ("nan" in dname or dname == "contained"):
                            continue
                        cases.append((size, dname, rects, bottom_up, order, fmt))
    # the same through FITS files and toasty's collection class, for the decompositions with undefined pixels
    for size in sizes[:2]:
        for dname, rects in decompositions(size[0], size[1], tier):
            if "nan" in dname:
                for bottom_up in (True, False):
                    for order in itertools.permutations(range(len(rects))):
                        cases.append((size, dname + "@files", rects, bottom_up, order, "fits"))
    for blank in (0.0, -999.0, 0, "0", "-999", "-999.0", "1e3"):
        for order in ((0, 1), (1, 0)):
            cases.append(("blankval", blank, order))
    cases = rng_order(cases, seed)
    n = 28
    jobs = [("serial", cases[i::n]) for i in range(n) if cases[i::n]]
    two = [(0, 0, 110, 60, 0), (100, 0, 200, 60, 4)]
    three_small = [(0, 0, 90, 60, 0), (80, 0, 170, 60, 3), (160, 0, 240, 60, 0)]
    cfgs = [MultiTanTree(size=(200, 60), rects=two, bottom_up=True, W=2), MultiTanTree(size=(200, 60), rects=two, bottom_up="mixed", W=2, io_points=False)]
    if tier == "thorough":
        three = [(0, 0, 90, 60, 0), (80, 0, 170, 60, 3), (160, 0, 240, 60, 0)]
        cfgs += [MultiTanTree(size=(240, 60), rects=three, bottom_up=True, W=2), MultiTanTree(size=(240, 60), rects=three_small, bottom_up="mixed", W=2, io_points=False), MultiTanTree(size=(200, 60), rects=two, bottom_up=False, W=3), MultiTanTree(size=(300, 60), rects=[(0, 0, 160, 60, 0), (150, 0, 300, 60, 0)], bottom_up=True, W=2)]
    # three inputs over four tile columns: one tile receives only the undefined border of the first input and data
    # from the two others (a worker's stale view of which tiles exist would lose a neighbour's pixels)
    cfgs.append(MultiTanTree(size=(518, 60), rects=[(0, 0, 262, 60, 3), (255, 0, 400, 60, 0), (390, 0, 518, 60, 0)], bottom_up=True, W=2, io_points=False, max_deviations=2 if tier == "quick" else None))
    # the same stage fed from FITS files through toasty's collection loader with a blank value
    cfgs.append(stages.MultiTan(nimg=3, W=2, from_files=True, max_deviations=2 if tier == "quick" else 4))
    # ... and from ONE multi-extension file listed once per extension
    cfgs.append(stages.MultiTan(nimg=3, W=2, from_files=True, mef=True, max_deviations=2 if tier == "quick" else 4))
    for c in cfgs:
        c.seed = seed
    jobs = [("e1", c) for c in cfgs] + jobs
    par.pmap(_job, jobs, rep)
    stages.finish_model_report(rep)
    return rep.finish()


def replay(payload):
    r = payload["replay"]
    if "schedule" in r:
        c = dict(r["config"])
        c.pop("stage", None)
        c["size"] = tuple(c["size"])
        c["rects"] = [tuple(x) for x in c["rects"]]
        cfg = MultiTanTree(**c)
        from vt.explore import run_labels

        ex = run_labels(cfg, r["schedule"])
        try:
            viol = ex.step_violations()
            if ex.main_finished():
                viol += cfg.at_terminal(ex.sched, ex.monitor)[0]
        finally:
            ex.close()
        for sig, detail in viol:
            print("REPLAY-FAIL", sig, detail)
        return 1 if viol else 0
    part = Part()
    if "blankval" in r:
        with scratch("c09r") as d:
            blankval_case(d, r["blankval"], tuple(r["order"]), part)
        for sig, (detail, _) in part.violations.items():
            print("REPLAY-FAIL", sig, detail[:400])
        return 1 if part.violations else 0
    with scratch("c09r") as d:
        rects = None
        for dname, rr in decompositions(r["mosaic"][0], r["mosaic"][1], "thorough"):
            if dname == r["decomposition"].split("@")[0]:
                rects = rr
        serial_case(d, tuple(r["mosaic"]), r["decomposition"], rects, r["bottom_up_inputs"], tuple(r["order"]), r["format"], part)
    for sig, (detail, _) in part.violations.items():
        print("REPLAY-FAIL", sig, detail[:400])
    return 1 if part.violations else 0
