"""C03 -- parallel stages hand every work item to exactly one worker and then terminate.

Engine E1: toasty's real producer/worker code (visit_leaves, transform, multi-TAN,
multi-WCS) runs over the virtual multiprocessing layer; every interleaving of producer,
feeder flushes, receives, receive timeouts and the shutdown signal is explored.
"""
import os

import numpy as np

from vt import par, vmp
from vt.explore import Harness, explore, run_labels
from vt.harness import Part, Report
from vt.monitors import DeliveryMonitor, Recorder
from vt.ref import quadtree
from vt import stages

PROP = "C03"


def configs(tier):
    cfgs = []
    V = stages.VisitLeaves
    T = stages.Transform
    cfgs.append(V(kind="generic", depth=1, W=2))
    cfgs.append(V(kind="toast", depth=1, W=2))
    cfgs.append(V(kind="filtered", depth=2, W=2, accepted=stages.FILTER_5LEAVES))
    cfgs.append(V(kind="generic", depth=2, W=2, apex=(1, 1, 0)))
    cfgs.append(T(depth=1, W=2))
    # one pyramid object counted and visited as a whole first, then restricted to a sub-pyramid and visited in parallel
    cfgs.append(V(kind="filtered", depth=3, W=2, accepted=stages.all_but(3, [(3, 5, 2), (2, 0, 1)]), apex=(2, 2, 1), traversed_first=True))
    cfgs.append(V(kind="filtered", depth=2, W=2, accepted=stages.FILTER_5LEAVES, apex=(1, 1, 1), traversed_first=True))
    cfgs.append(V(kind="generic", depth=2, W=2, apex=(1, 0, 1), traversed_first=True))
    # timeouts that also fire on contention for the queue's reader lock, with data in the pipe
    cfgs.append(V(kind="generic", depth=1, W=2, contended_timeouts=True))
    cfgs.append(stages.MultiTan(nimg=3, W=2))
    cfgs.append(stages.MultiWcs(nimg=2, W=2))
    cfgs.append(V(kind="generic", depth=1, W=2, quiet_messages=True, foreign_child=True))
    # inputs read from FITS files through toasty's own collection with a blank value (the loader's buffers are
    # pickled by the queue's feeder thread, later than the put); a reprojection function that cannot be pickled
    cfgs.append(stages.MultiTan(nimg=3, W=2, from_files=True, max_deviations=2 if tier == "quick" else None))
    cfgs.append(stages.MultiWcs(nimg=2, W=2, closure_reproject=True))
    # one multi-extension file listed once per extension; segments without any data ahead of one with data
    cfgs.append(stages.MultiTan(nimg=3, W=2, from_files=True, mef=True, max_deviations=2 if tier == "quick" else None))
    cfgs.append(stages.MultiWcs(nimg=3, W=2, nan_images=(0, 1), max_deviations=3 if tier == "quick" else None))
    # one processor object used for two parallel tilings in a row
    cfgs.append(stages.MultiTan(nimg=2, W=2, twice=True, max_deviations=2 if tier == "quick" else 4))
    # top-down tile formats take other branches of the multi-WCS placement code
    cfgs.append(stages.MultiWcs(nimg=2, W=2, fmt="npy"))
    # wide item sets (16 384 leaves / 5 461 tiles), default schedule only, cut at a horizon in the quick tier
    cfgs.append(V(kind="generic", depth=7, W=2, max_deviations=0, horizon_steps=40000 if tier == "quick" else None))
    cfgs.append(T(depth=6, W=2, max_deviations=0, horizon_steps=40000 if tier == "quick" else None))
    # a wide item set whose size is not a multiple of anything convenient (1 023 leaves: more than 256 per worker)
    cfgs.append(V(kind="filtered", depth=5, W=2, accepted=stages.all_but(5, [(5, 9, 20)]), max_deviations=0))
    # deep pyramids restricted to an apex just above the leaves
    cfgs.append(V(kind="generic", depth=10, W=2, apex=(9, 300, 7)))
    cfgs.append(V(kind="toast", depth=9, W=2, apex=(8, 5, 9)))
    if tier == "quick":
        # larger item sets (16 leaves / 21 tiles, more than the bounded queue holds) whose full graphs belong to
        # the thorough tier: every schedule within a few departures from the default order
        cfgs.append(V(kind="generic", depth=2, W=2, max_deviations=3))
        cfgs.append(V(kind="generic", depth=2, W=3, max_deviations=2))
        cfgs.append(T(depth=2, W=2, max_deviations=2))
        cfgs.append(stages.MultiTan(nimg=6, W=2, max_deviations=2))
    if tier == "thorough":
        cfgs.append(V(kind="generic", depth=1, W=3))
        cfgs.append(V(kind="generic", depth=1, W=1))
        cfgs.append(V(kind="generic", depth=2, W=2))
        cfgs.append(V(kind="generic", depth=1, W=2, pipe_capacity=1))
        # timeouts that fire on contention for the queue's reader lock although data is in the pipe
        cfgs.append(V(kind="generic", depth=1, W=3, contended_timeouts=True))
        cfgs.append(T(depth=1, W=2, contended_timeouts=True))
        cfgs.append(V(kind="filtered", depth=2, W=3, accepted=stages.FILTER_5LEAVES))
        cfgs.append(T(depth=1, W=3))
        cfgs.append(T(depth=2, W=2))
        cfgs.append(stages.MultiTan(nimg=3, W=3))
        cfgs.append(stages.MultiWcs(nimg=3, W=2))
    return cfgs


def _work(cfg):
    return stages.explore_to_part(cfg, PROP)


def run(tier, seed):
    rep = Report(PROP, tier, seed, "model_checking")
    rep.rule = (
        "stateful exhaustive exploration of every interleaving of the real stage code over the virtual "
        "multiprocessing layer, per configuration (stage, item set, workers, pipe capacity); a state is "
        "non-trivial when it is a distinct canonical state; evaluations = executions of the implementation; configurations "
        "carrying max_deviations=k are explored for every schedule within k departures from the default order instead (named in the notes)"
    )
    rep.assumptions = stages.ASSUMPTIONS
    cfgs = configs(tier)
    for c in cfgs:
        c.seed = seed
    par.pmap(_work, cfgs, rep)
    stages.finish_model_report(rep)
    return rep.finish()


def replay(payload):
    return stages.replay(payload)
