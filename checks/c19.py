"""C19 -- an error while processing any tile is reported, never swallowed by parallelism.

The C01/C03 harnesses with a fault injector: processing of item k raises, for every k, in
whichever worker the schedule hands that item to; all interleavings are explored.  Oracle:
the stage must raise to its caller in every terminal state, and from every reachable state
a terminal state must be reachable (no waiting forever).
"""
import os

from vt import par, stages
from vt.fixtures import quiet
from vt.harness import Part, Report
from vt.ref import quadtree

PROP = "C19"


WALK3 = [(1, 0, 0), (2, 0, 0), (2, 1, 1), (1, 1, 1), (2, 2, 2), (2, 3, 2), (2, 2, 3), (2, 3, 3), (1, 0, 1)]

SIX_SEEDED = [
    (1, 0, 0), (2, 0, 0), (3, 0, 0), (2, 1, 0), (3, 2, 0), (2, 0, 1), (3, 0, 2), (2, 1, 1), (3, 2, 2),
    (1, 1, 0), (2, 2, 0), (3, 4, 0), (2, 3, 0), (3, 6, 0),
]


def _ten_seeded():
    acc = []
    for (px, py) in [(0, 0), (1, 0), (0, 1)]:
        acc.append((1, px, py))
        for j in (0, 1):
            for i in (0, 1):
                t = (2, 2 * px + i, 2 * py + j)
                if len([a for a in acc if a[0] == 2]) < 10:
                    acc += [t, (3, 2 * t[1], 2 * t[2])]
    return acc


TEN_SEEDED = _ten_seeded()


def configs(tier):
    cfgs = []
    S = stages
    EX = ["runtime", "oserror", "valueerror"]
    k = [0]

    def ex():
        # rotate through the exception families so that every stage sees each of them
        k[0] += 1
        return EX[k[0] % 3]

    cfgs.append(S.Walk(kind="generic", depth=2, W=2, fail_item=(1, 0, 0), fail_exc="oserror"))
    cfgs.append(S.Walk(kind="generic", depth=1, W=2, fail_item=(0, 0, 0), fail_exc="valueerror"))
    # three live parents A=(1,0,0) (two leaves), B=(1,1,1) (four leaves), root: fail at each
    for item, e in zip([(1, 0, 0), (1, 1, 1), (0, 0, 0)], EX):
        cfgs.append(S.Walk(kind="filtered", depth=2, W=2, accepted=WALK3, fail_item=item, fail_exc=e))
    # six tiles ready at once (> 2*workers): survivors can fill the done queue after the failure
    cfgs.append(S.Walk(kind="filtered", depth=3, W=2, accepted=SIX_SEEDED, fail_item=(2, 0, 0)))
    for item, e in zip([(1, 0, 0), (1, 1, 0), (1, 0, 1), (1, 1, 1)], EX + ["runtime"]):
        cfgs.append(S.VisitLeaves(kind="generic", depth=1, W=2, fail_item=item, fail_exc=e))
    for item, e in zip([(1, 0, 0), (1, 1, 1), (0, 0, 0)], EX):
        cfgs.append(S.Transform(depth=1, W=2, fail_item=item, fail_exc=e))
    # abrupt death of a worker (SIGKILL / OOM killer) while it handles an item
    # EVERY item fails (a callback that cannot work at all), with more items than the bounded work queue holds: all
    # workers are gone while the dispatcher still has items to hand out; with a pipe that holds a single item the
    # dispatcher's flush of the queue is what has nobody left to read it
    dv = 3 if tier == "quick" else None
    cfgs.append(S.VisitLeaves(kind="generic", depth=2, W=2, fail_item="all", max_deviations=dv))
    cfgs.append(S.VisitLeaves(kind="generic", depth=1, W=2, fail_item="all", fail_exc="oserror"))
    cfgs.append(S.VisitLeaves(kind="generic", depth=1, W=2, fail_item="all", pipe_capacity=1))
    cfgs.append(S.MultiTan(nimg=7, W=2, fail_item="all", max_deviations=dv))
    cfgs.append(S.MultiTan(nimg=3, W=2, fail_item="all", pipe_capacity=1, fail_exc="valueerror"))
    cfgs.append(S.MultiWcs(nimg=6, W=2, fail_item="all", max_deviations=dv))
    cfgs.append(S.Transform(depth=3, W=2, fail_item="all", max_deviations=dv))
    cfgs.append(S.Walk(kind="generic", depth=2, W=2, fail_item="all", max_deviations=dv))
    # an error object that cannot be pickled (a class local to the callback's module function, holding a lock)
    cfgs.append(S.VisitLeaves(kind="generic", depth=1, W=2, fail_item=(1, 0, 1), fail_exc="unpicklable"))
    cfgs.append(S.Walk(kind="filtered", depth=2, W=2, accepted=WALK3, fail_item=(1, 1, 1), fail_exc="unpicklable"))
    cfgs.append(S.Transform(depth=1, W=2, fail_item=(1, 1, 0), fail_exc="unpicklable"))
    cfgs.append(S.VisitLeaves(kind="generic", depth=1, W=2, fail_item=(1, 1, 0), fail_exc="kill"))
    cfgs.append(S.Transform(depth=1, W=2, fail_item=(1, 0, 1), fail_exc="kill"))
    cfgs.append(S.Walk(kind="filtered", depth=2, W=2, accepted=WALK3, fail_item=(1, 1, 1), fail_exc="kill"))
    for i, e in zip(range(2), ["oserror", "valueerror"]):
        cfgs.append(S.MultiTan(nimg=2, W=2, fail_item=(i,), fail_exc=e))
        cfgs.append(S.MultiWcs(nimg=2, W=2, fail_item=(i,), fail_exc=EX[(i + 2) % 3]))
    # the calling process owns another, idle child while a walk worker fails (or is killed)
    cfgs.append(S.Walk(kind="filtered", depth=2, W=2, accepted=WALK3, fail_item=(1, 1, 1), fail_exc="runtime", foreign_child=True))
    cfgs.append(S.Walk(kind="filtered", depth=2, W=2, accepted=WALK3, fail_item=(1, 0, 0), fail_exc="kill", foreign_child=True))
    # informational messages switched off for the process (as `toasty pipeline process-todos` leaves it)
    cfgs.append(S.Walk(kind="filtered", depth=2, W=2, accepted=WALK3, fail_item=(1, 1, 1), fail_exc="valueerror", quiet_messages=True))
    cfgs.append(S.VisitLeaves(kind="generic", depth=1, W=2, fail_item=(1, 0, 1), fail_exc="runtime", quiet_messages=True))
    cfgs.append(S.Transform(depth=1, W=2, fail_item=(1, 1, 0), fail_exc="oserror", quiet_messages=True))
    cfgs.append(S.MultiTan(nimg=2, W=2, fail_item=(1,), fail_exc="runtime", quiet_messages=True))
    # 16 leaves, 4 queue slots: after a worker died the dispatcher repeatedly finds the queue full while the other
    # worker is busy (every schedule within 3 departures from the default order; the whole graph in thorough)
    cfgs.append(S.VisitLeaves(kind="generic", depth=2, W=2, fail_item=(2, 0, 0), fail_exc="runtime", max_deviations=3 if tier == "quick" else None))
    # a persistent failure of one input among five (a worker that hands its item back would poison the others);
    # a transform with exactly two workers and 85 tiles, failing on an early tile
    cfgs.append(S.MultiWcs(nimg=5, W=2, fail_item=(0,), fail_exc="runtime", max_deviations=2 if tier == "quick" else 4))
    cfgs.append(S.Transform(depth=3, W=2, fail_item=(3, 1, 0), fail_exc="oserror", max_deviations=2 if tier == "quick" else 3))
    # 256 leaves handled by ONE worker, every one failing (an exit status is eight bits wide: a worker that counts its
    # failures and exits with the count would look successful); default schedule
    cfgs.append(S.VisitLeaves(kind="generic", depth=4, W=1, fail_item="all", max_deviations=0))
    # an input image that cannot be LOADED: in parallel mode the dispatching process reads the images while the workers
    # are busy or waiting, so the error surfaces between two hand-offs, with live workers
    for k, e in ((0, "oserror"), (2, "runtime"), (3, "valueerror")):
        cfgs.append(S.MultiTan(nimg=4, W=2, source_fail=k, fail_exc=e))
    cfgs.append(S.MultiWcs(nimg=3, W=2, source_fail=1, fail_exc="oserror"))
    cfgs.append(S.MultiWcs(nimg=3, W=2, source_fail=2, fail_exc="runtime"))
    # more images after the failing one than the bounded queue holds (2 x workers + 1): if the surviving
    # worker stopped early, the producer would block for ever
    cfgs.append(S.MultiTan(nimg=6, W=2, fail_item=(0,), fail_exc="valueerror"))
    if tier == "thorough":
        cfgs.append(S.MultiTan(nimg=7, W=2, fail_item=(1,), fail_exc="oserror"))
        cfgs.append(S.MultiWcs(nimg=6, W=2, fail_item=(0,), fail_exc="runtime"))
        for item in [(1, 1, 0), (1, 1, 1), (0, 0, 0)]:
            cfgs.append(S.Walk(kind="generic", depth=2, W=2, fail_item=item, fail_exc=ex()))
        for item in [(1, 0, 0), (0, 0, 0)]:
            cfgs.append(S.Walk(kind="generic", depth=2, W=3, fail_item=item, fail_exc=ex()))
        cfgs.append(S.Walk(kind="filtered", depth=2, W=2, accepted=S.FILTER_5LEAVES, fail_item=(1, 1, 1), fail_exc=ex()))
        for item in [(2, 3, 0), (1, 0, 0), (1, 1, 0)]:
            cfgs.append(S.Walk(kind="filtered", depth=3, W=2, accepted=SIX_SEEDED, fail_item=item, fail_exc=ex()))
        # more ready tiles than the done queue plus a one-item pipe can absorb: the abort path must not wait
        # for queues that nobody drains any more
        cfgs.append(S.Walk(kind="filtered", depth=3, W=2, accepted=TEN_SEEDED, fail_item=(2, 0, 0), pipe_capacity=1))
        cfgs.append(S.Walk(kind="generic", depth=2, W=2, fail_item=(1, 0, 0), fail_exc="kill"))
        cfgs.append(S.MultiTan(nimg=2, W=2, fail_item=(1,), fail_exc="kill"))
        for item in [(1, 0, 0), (1, 1, 1)]:
            for e in EX:
                cfgs.append(S.VisitLeaves(kind="generic", depth=1, W=3, fail_item=item, fail_exc=e))
            cfgs.append(S.VisitLeaves(kind="toast", depth=1, W=2, fail_item=item, fail_exc=ex()))
        for item in [(2, 0, 0), (2, 3, 3)]:
            cfgs.append(S.VisitLeaves(kind="filtered", depth=2, W=2, accepted=S.FILTER_5LEAVES, fail_item=item, fail_exc=ex()))
        for item in [(1, 1, 0), (1, 0, 1), (1, 0, 0)]:
            for e in EX:
                cfgs.append(S.Transform(depth=1, W=2, fail_item=item, fail_exc=e))
        cfgs.append(S.Transform(depth=1, W=3, fail_item=(1, 0, 1), fail_exc=ex()))
        for i in range(3):
            cfgs.append(S.MultiTan(nimg=3, W=2, fail_item=(i,), fail_exc=EX[i]))
        for e in EX:
            cfgs.append(S.MultiWcs(nimg=3, W=2, fail_item=(1,), fail_exc=e))
            cfgs.append(S.MultiTan(nimg=2, W=2, fail_item=(0,), fail_exc=e))
    return cfgs


def serial_reference(cfg):
    """Serial mode must raise to the caller (the reference behaviour)."""
    part = Part()
    if cfg.fail_exc == "kill":
        return part  # killing the only process is not an outcome the caller could observe
    part.case(nontrivial=True)
    kw = dict(cfg.describe())
    kw.pop("stage")
    kw["W"] = 1
    h = type(cfg)(**kw)
    main, mon, root = h.fresh()
    # run the public entry point in serial mode, outside vmp
    try:
        with quiet():
            if isinstance(h, stages.Walk):
                stages.make_pyramid(h.kind, h.depth, getattr(h, "accepted", None), getattr(h, "apex", None)).walk(_cb_from(main, h), parallel=1)
            else:
                _serial_entry(h)
        part.violation("%s/serial-returns-normally-after-item-error" % cfg.stage, "serial %s did not raise for failing item %r" % (cfg.stage, cfg.fail_item), {"config": cfg.describe(), "serial": True})
    except stages.INJECTED:
        pass
    finally:
        h.cleanup(root)
    return part


def _cb_from(main, h):
    def cb(pos):
        h._maybe_fail(pos)

    return cb


def _serial_entry(h):
    from toasty import transform

    if isinstance(h, stages.VisitLeaves):
        h._pyr().visit_leaves(lambda pos, tile: h._maybe_fail(pos), parallel=1)
    elif isinstance(h, stages.Transform):
        transform._do_a_transform(None, h.depth, lambda: ["buf"], lambda buf, pos, a, b: h._maybe_fail(pos), parallel=1)
    elif isinstance(h, (stages.MultiTan, stages.MultiWcs)):
        import tempfile, shutil
        from toasty.pyramid import PyramidIO
        from toasty.builder import Builder

        root = tempfile.mkdtemp(prefix="verif-c19s-", dir=stages.scratch_root())
        try:
            imgs = stages.tan_images(h.nimg)
            ks = [] if h.fail_item is None else list(range(h.nimg)) if h.fail_item == "all" else [h.fail_item[0]]
            sf = dict(fail_at=h.source_fail, fail_exc=h.fail_exc)
            pio = PyramidIO(root, default_format="fits")
            if isinstance(h, stages.MultiTan):
                from toasty.multi_tan import MultiTanProcessor

                for k in ks:
                    imgs[k].__class__ = stages.failing_image_class(h.fail_exc)
                proc = MultiTanProcessor(stages.ListCollection(imgs, **sf))
                proc.compute_global_pixelization(Builder(pio))
                proc.tile(pio, parallel=1)
            else:
                from toasty.multi_wcs import MultiWcsProcessor

                for i, im in enumerate(imgs):
                    im.asarray()[...] = float(i + 1)
                for k in ks:
                    imgs[k].asarray()[...] = {"runtime": -1.0, "oserror": -2.0, "valueerror": -3.0}[h.fail_exc]
                proc = MultiWcsProcessor(stages.ListCollection(imgs, **sf))
                proc.compute_global_pixelization(Builder(pio))
                proc.tile(pio, stages._fake_reproject, parallel=1)
        finally:
            shutil.rmtree(root, ignore_errors=True)


# --- an I/O error while a tile's inputs are read is an error while processing that tile -----------

_REAL_LOAD = []


class ReadFault(object):
    """Makes ImageLoader.load_path fail once with an OSError for one (existing) tile file."""

    def __init__(self, suffix, errno_):
        self.suffix = suffix
        self.errno = errno_

    def __enter__(self):
        from toasty import image

        if not _REAL_LOAD:
            _REAL_LOAD.append(image.ImageLoader.load_path)
        real = _REAL_LOAD[0]
        suffix, en = self.suffix, self.errno

        def load_path(loader, path):
            if path.endswith(suffix) and os.path.exists(path):
                if en is None:
                    raise OSError("injected: cannot identify image file %r" % path)
                raise OSError(en, os.strerror(en), path)
            return real(loader, path)

        image.ImageLoader.load_path = load_path
        return self

    def __exit__(self, *a):
        from toasty import image

        image.ImageLoader.load_path = _REAL_LOAD[0]


def read_fault_serial(part):
    """Serial cascade: an OSError (EMFILE, EIO, unreadable file) while reading an existing child must
    reach the caller; it must not be mistaken for 'tile missing'."""
    import shutil
    from toasty.merge import cascade_images, averaging_merger
    from toasty.pyramid import PyramidIO
    from checks import c02

    with stages_scratch() as d:
        for child in range(4):
            for en in (24, 5, 13, None):
                cfg = {"read_fault": True, "child": child, "errno": en}
                part.case(nontrivial=True)
                root = os.path.join(d, "rf")
                shutil.rmtree(root, ignore_errors=True)
                pio = PyramidIO(root, default_format="npy")
                leaves = {pos: c02.leaf(k, "npy-F32") for k, pos in enumerate(c02.population_positions((0, 1, 2, 3), 1))}
                with quiet():
                    c02.write_leaves(pio, leaves, "npy")
                suffix = os.path.join("1", str(child // 2), "%d_%d.npy" % (child // 2, child % 2))
                try:
                    with quiet(), ReadFault(suffix, en):
                        cascade_images(pio, 1, averaging_merger, parallel=1)
                    part.violation("cascade/read-error-swallowed/serial", "%r: cascade_images returned normally although reading child %s failed with OSError(errno=%r)" % (cfg, suffix, en), cfg)
                except OSError:
                    pass
                except Exception:
                    pass  # any visible failure satisfies the property


def stages_scratch():
    from vt.fixtures import scratch

    return scratch("c19rf")


class ReadFaultCascade(stages.StageHarness):
    """Parallel cascade (2 workers) with a read fault, all interleavings: the stage must raise."""

    stage = "cascade_read_fault"
    io_points = False

    def expected_items(self):
        return []

    def fresh(self):
        import tempfile
        from toasty.merge import cascade_images, averaging_merger
        from toasty.pyramid import PyramidIO
        from checks import c02
        from vt.monitors import Monitor

        root = tempfile.mkdtemp(prefix="verif-c19rf-", dir=stages.scratch_root())
        pio = PyramidIO(root, default_format="npy")
        leaves = {pos: c02.leaf(k, "npy-F32") for k, pos in enumerate(c02.population_positions((0, 1, 2, 3), 1))}
        with quiet():
            c02.write_leaves(pio, leaves, "npy")
        self._fault = ReadFault(os.path.join("1", "1", "1_0.npy"), self.errno)
        self._fault.__enter__()

        def main():
            cascade_images(pio, 1, averaging_merger, parallel=2)

        return main, Monitor(), root

    def cleanup(self, root):
        import shutil

        self._fault.__exit__()
        shutil.rmtree(root, ignore_errors=True)

    def at_terminal(self, sched, mon):
        main = sched.main()
        if main.outcome[0] == "return":
            return [("returns-normally-after-read-error", "parallel cascade returned normally although reading a child failed with OSError(errno=%r)" % (self.errno,))], ("return",)
        return [], ("raise", main.outcome[1])


stages.HARNESSES["ReadFaultCascade"] = ReadFaultCascade


def _work(cfg):
    if cfg == "read-fault-serial":
        part = Part()
        read_fault_serial(part)
        return part
    part = stages.explore_to_part(cfg, PROP)
    if not isinstance(cfg, ReadFaultCascade):
        part.merge(serial_reference(cfg))
    return part


def optimized_configs():
    """One failing item per stage, explored again in an interpreter started with -O (asserts compiled out)."""
    S = stages
    return [
        S.VisitLeaves(kind="generic", depth=1, W=2, fail_item=(1, 0, 1), fail_exc="runtime"),
        S.Transform(depth=1, W=2, fail_item=(1, 1, 0), fail_exc="oserror"),
        S.Walk(kind="filtered", depth=2, W=2, accepted=WALK3, fail_item=(1, 1, 1), fail_exc="valueerror"),
        S.MultiTan(nimg=2, W=2, fail_item=(1,), fail_exc="runtime"),
        S.MultiWcs(nimg=2, W=2, fail_item=(0,), fail_exc="oserror"),
    ]


def optimized_subrun_main():
    """Entry point of the `python -O` child: explores the configurations and prints one JSON document."""
    import json
    import sys

    out = []
    for cfg in optimized_configs():
        part = stages.explore_to_part(cfg, PROP, max_wall=600)
        sp = serial_reference(cfg)
        out.append({
            "name": cfg.name, "states": part.states, "transitions": part.transitions, "executions": part.executions,
            "not_exhausted": part.counters.get("configurations_not_exhausted", 0) + part.counters.get("driver_crashes", 0),
            "violations": [[sig, detail, rp] for sig, (detail, rp) in list(part.violations.items()) + list(sp.violations.items())],
        })
    sys.stdout.write("\nVERIF-SUBRUN-JSON " + json.dumps({"optimize": sys.flags.optimize, "configs": out}) + "\n")


def optimized_subrun(rep):
    """Runs the exploration of optimized_configs() in a child interpreter started with -O and merges the result."""
    import json
    import subprocess
    import sys

    from vt import build

    verif = os.path.dirname(os.path.dirname(os.path.abspath(__file__)))
    code = "import sys; sys.path.insert(0, %r); from vt import build; build.activate_repo(); from checks import c19; c19.optimized_subrun_main()" % verif
    env = dict(os.environ)
    env["PYTHONHASHSEED"] = "0"
    p = subprocess.run([sys.executable, "-O", "-W", "ignore", "-c", code], cwd=verif, env=env, stdout=subprocess.PIPE, stderr=subprocess.PIPE, text=True, timeout=3600)
    line = [l for l in p.stdout.splitlines() if l.startswith("VERIF-SUBRUN-JSON ")]
    if p.returncode != 0 or not line:
        rep.errors.append("the -O child interpreter failed (exit %r): %s" % (p.returncode, (p.stderr or p.stdout)[-800:]))
        return
    doc = json.loads(line[-1][len("VERIF-SUBRUN-JSON "):])
    if doc["optimize"] < 1:
        rep.errors.append("the child interpreter did not run optimized")
        return
    part = Part()
    for c in doc["configs"]:
        part.states += c["states"]
        part.transitions += c["transitions"]
        part.executions += c["executions"]
        part.evaluations += c["executions"]
        part.nontrivial_n += c["states"]
        part.count("configurations_explored_under_python_-O")
        if c["not_exhausted"]:
            part.count("configurations_not_exhausted")
        for sig, detail, rp in c["violations"]:
            rp = dict(rp or {})
            rp["python_optimize"] = True
            part.violation("python-O/%s" % sig, "[interpreter started with -O] %s" % detail, rp)
    rep.merge(part)


def run(tier, seed):
    rep = Report(PROP, tier, seed, "model_checking")
    rep.rule = (
        "for every parallel stage and every single failing item: stateful exhaustive exploration of all interleavings "
        "of the real stage code over the virtual multiprocessing layer (fault enumeration x schedules); states = "
        "distinct canonical states; plus the serial reference run per configuration; five configurations (one per stage) are explored a second time in a child "
        "interpreter started with -O"
    )
    rep.assumptions = stages.ASSUMPTIONS + ["single fault: exactly one item fails per run; at least two workers (parallel=1 selects the serial path)"]
    cfgs = configs(tier)
    cfgs.append(ReadFaultCascade(errno=24, W=2))
    if tier == "thorough":
        cfgs.append(ReadFaultCascade(errno=None, W=2))
    for c in cfgs:
        c.seed = seed
    par.pmap(_work, cfgs + ["read-fault-serial"], rep)
    optimized_subrun(rep)
    stages.finish_model_report(rep)
    return rep.finish()


def replay(payload):
    import sys

    if payload["replay"].get("python_optimize") and sys.flags.optimize < 1:
        # found under -O: replay it in an interpreter started the same way
        import json
        import subprocess
        import tempfile

        verif = os.path.dirname(os.path.dirname(os.path.abspath(__file__)))
        with tempfile.NamedTemporaryFile("w", suffix=".json", delete=False) as f:
            json.dump(payload, f)
        try:
            return subprocess.run([sys.executable, "-O", "-W", "ignore", "-m", "vt.main", PROP, "--replay", f.name], cwd=verif).returncode
        finally:
            os.unlink(f.name)
    if payload["replay"].get("read_fault"):
        p = Part()
        read_fault_serial(p)
        for sig in p.violations:
            print("REPLAY-FAIL", sig)
        return 1 if p.violations else 0
    if payload["replay"].get("serial"):
        cfgd = dict(payload["replay"]["config"])
        cls = stages.HARNESSES[{"walk": "Walk", "visit_leaves": "VisitLeaves", "transform": "Transform", "multi_tan": "MultiTan", "multi_wcs": "MultiWcs"}[cfgd.pop("stage")]]
        cfg = cls(**{k: (tuple(v) if isinstance(v, list) and k in ("apex", "fail_item") else v) for k, v in cfgd.items()})
        p = serial_reference(cfg)
        for sig in p.violations:
            print("REPLAY-FAIL", sig)
        return 1 if p.violations else 0
    return stages.replay(payload)
