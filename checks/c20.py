"""C20 -- each input file contributes exactly the HDU and WCS solution the user selected.

Bounded-exhaustive enumeration of (collection of multi-extension files) x (hdu_index
selection) x (wcs_key selection) x (entry point), against direct astropy reads.
"""
import argparse
import contextlib
import itertools
import os

import numpy as np

from vt import par
from vt.fixtures import scratch, quiet, rng_order
from vt.harness import Part, Report

PROP = "C20"

# file layouts: list of HDU kinds; 'E' empty primary, 'P' primary with image, 'I' image ext, 'T' table
LAYOUTS = {
    "A": ["E", "I", "I", "I", "T"],
    "B": ["E", "T", "I", "I", "I"],
    "C": ["P", "I", "I"],
    # D: data cubes - celestial axes innermost (K) and a (RA, DEC, FREQ)-ordered array, i.e. FITS axes
    # FREQ, RA, DEC with the spectral axis innermost (U); both have a length-1 spectral axis
    "D": ["E", "I", "K", "U"],
    # L: many extensions, so that per-file lists hold two-digit indices (only 1, 10 and 12 are enumerated)
    "L": ["E"] + ["I"] * 12,
    # V: a 2-D image whose alternate WCS "A" declares a virtual third axis (WCSAXESA = 3, FREQ)
    "V": ["E", "I", "V"],
}
SELECTABLE = {"L": [1, 10, 12]}


def _hdr_wcs(hdr, key, ra, dec, scale, nx, ny):
    k = "" if key == " " else key
    hdr["CTYPE1" + k] = "RA---TAN"
    hdr["CTYPE2" + k] = "DEC--TAN"
    hdr["CRVAL1" + k] = ra
    hdr["CRVAL2" + k] = dec
    hdr["CRPIX1" + k] = (nx + 1) / 2.0
    hdr["CRPIX2" + k] = (ny + 1) / 2.0
    hdr["CD1_1" + k] = -scale
    hdr["CD2_2" + k] = scale
    hdr["CD1_2" + k] = 0.0
    hdr["CD2_1" + k] = 0.0


def make_file(path, layout, file_no):
    from astropy.io import fits
    from astropy.table import Table

    hdus = []
    for j, kind in enumerate(LAYOUTS[layout]):
        if kind == "E":
            hdus.append(fits.PrimaryHDU())
        elif kind == "T":
            t = Table({"a": np.arange(3), "b": np.arange(3) * 2.0})
            hdus.append(fits.BinTableHDU(t))
        elif kind in "KU":
            ny, nx = 4 + j + file_no, 7 + j + 2 * file_no
            plane = np.full((ny, nx), 100.0 * file_no + 10.0 * j, dtype=np.float32) + np.arange(nx, dtype=np.float32)[None, :] * 0.01
            if kind == "K":
                data = plane[None, :, :]  # numpy (FREQ, DEC, RA): FITS axes RA, DEC, FREQ
                order = ["RA", "DEC", "FREQ"]
            else:
                data = plane[:, :, None]  # numpy (DEC, RA, FREQ): FITS axes FREQ, RA, DEC
                order = ["FREQ", "RA", "DEC"]
            h = fits.ImageHDU(data)
            for key, (ra, dec, sc) in ((" ", (10.0 + file_no, 20.0 + j, 1e-3)), ("A", (200.0 + file_no, -30.0 - j, 2e-3))):
                k = "" if key == " " else key
                for ax, name in enumerate(order, 1):
                    if name == "RA":
                        h.header["CTYPE%d%s" % (ax, k)] = "RA---TAN"; h.header["CRVAL%d%s" % (ax, k)] = ra
                        h.header["CRPIX%d%s" % (ax, k)] = (nx + 1) / 2.0; h.header["CDELT%d%s" % (ax, k)] = -sc
                    elif name == "DEC":
                        h.header["CTYPE%d%s" % (ax, k)] = "DEC--TAN"; h.header["CRVAL%d%s" % (ax, k)] = dec
                        h.header["CRPIX%d%s" % (ax, k)] = (ny + 1) / 2.0; h.header["CDELT%d%s" % (ax, k)] = sc
                    else:
                        h.header["CTYPE%d%s" % (ax, k)] = "FREQ"; h.header["CRVAL%d%s" % (ax, k)] = 1.4e9
                        h.header["CRPIX%d%s" % (ax, k)] = 1.0; h.header["CDELT%d%s" % (ax, k)] = 1e6
            hdus.append(h)
        else:
            ny, nx = 3 + j + 2 * file_no, 5 + 2 * j + file_no  # pairwise distinct shapes
            data = np.full((ny, nx), 100.0 * file_no + 10.0 * j, dtype=np.float32)
            data += np.arange(nx, dtype=np.float32)[None, :] * 0.01
            h = fits.PrimaryHDU(data) if kind == "P" else fits.ImageHDU(data)
            _hdr_wcs(h.header, " ", 10.0 + file_no, 20.0 + j, 1e-3, nx, ny)
            _hdr_wcs(h.header, "A", 200.0 + file_no, -30.0 - j, 2e-3, nx, ny)
            if kind == "V":
                h.header["WCSAXESA"] = 3
                h.header["CTYPE3A"] = "FREQ"
                h.header["CRVAL3A"] = 1.4e9
                h.header["CRPIX3A"] = 1.0
                h.header["CDELT3A"] = 1e6
                h.header["CD3_3A"] = 1e6
            hdus.append(h)
    fits.HDUList(hdus).writeto(path, overwrite=True)


def image_hdus(layout):
    return [j for j, k in enumerate(LAYOUTS[layout]) if k in "PIKUV"]


def expected(path, hdu_index, key):
    from astropy.io import fits
    from astropy.wcs import WCS

    with fits.open(path) as hdul:
        hdu = hdul[hdu_index]
        data = np.array(hdu.data)
        w = WCS(hdu.header, key=key)
    if data.ndim == 3:
        # the celestial plane of a cube with a length-1 spectral axis
        data = data.reshape([n for n in data.shape if n != 1]) if 1 in data.shape else data[0]
        w = w.celestial
    elif w.naxis > 2:
        w = w.celestial  # a virtual extra axis declared by the selected WCS only
    return data, w


def wcs_sig(w):
    return (
        tuple(np.round(w.wcs.crval, 9)),
        tuple(np.round(w.wcs.crpix, 9)),
        tuple(np.round(w.pixel_scale_matrix.ravel(), 12)),
        tuple(w.wcs.ctype),
    )


def fname(i, l):
    # names sort in the REVERSE of the input order: an entry point that sorts its paths misassigns the lists
    return "%s%d_%s.fits" % ("zpd"[i], i, l)


class _Recorder(object):
    captured = None

    def __init__(self, coll, *a, **k):
        type(self).captured = coll
        self.out_dir = "recorded"

    def compute_global_pixelization(self, *a, **k):
        pass

    def tile(self, *a, **k):
        pass


@contextlib.contextmanager
def _cli_recording(module, name):
    import importlib

    m = importlib.import_module(module)
    orig = getattr(m, name)
    _Recorder.captured = None
    setattr(m, name, _Recorder)
    try:
        yield
    finally:
        setattr(m, name, orig)


def build_collection(entry, paths, hdu_sel, key_sel):
    from toasty import collection

    if entry in ("view", "multi-tan-cli"):
        from toasty import cli

        argv = []
        if hdu_sel is not None:
            argv += ["--hdu-index", str(hdu_sel) if isinstance(hdu_sel, int) else ",".join(str(i) for i in hdu_sel)]
        key = key_sel if isinstance(key_sel, str) else ",".join(key_sel)
        if key.strip(" ,") or entry == "view":
            argv += ["--wcs-key=%s" % key]
        if entry == "view":
            with _cli_recording("toasty.fits_tiler", "FitsTiler"):
                cli.entrypoint(["view", "--tile-only", "--parallelism", "1"] + argv + list(paths))
        else:
            import toasty.builder

            with _cli_recording("toasty.multi_tan", "MultiTanProcessor"):
                orig = toasty.builder.Builder.write_index_rel_wtml
                toasty.builder.Builder.write_index_rel_wtml = lambda self, *a, **k: None
                try:
                    cli.entrypoint(["tile-multi-tan", "--parallelism", "1", "--outdir", os.path.join(os.path.dirname(paths[0]), "mt-out")] + argv + list(paths))
                finally:
                    toasty.builder.Builder.write_index_rel_wtml = orig
        if _Recorder.captured is None:
            raise RuntimeError("the command never built a collection")
        return _Recorder.captured

    if entry == "load":
        return collection.load(list(paths), hdu_index=hdu_sel, wcs_key=key_sel)
    if entry == "load_str" and len(paths) == 1:
        return collection.load(paths[0], hdu_index=hdu_sel, wcs_key=key_sel)
    if entry == "simple":
        return collection.SimpleFitsCollection(list(paths), hdu_index=hdu_sel, wcs_key=key_sel)
    if entry == "cli":
        ns = argparse.Namespace()
        if hdu_sel is None:
            ns.hdu_index = None
        elif isinstance(hdu_sel, int):
            ns.hdu_index = str(hdu_sel)
        else:
            ns.hdu_index = ",".join(str(i) for i in hdu_sel)
        if isinstance(key_sel, str):
            ns.wcs_key = key_sel
        else:
            ns.wcs_key = ",".join(key_sel)
        ns.blankval = None
        loader = collection.CollectionLoader.create_from_args(ns)
        return loader.load_paths(paths)
    raise ValueError(entry)


def cli_expressible(hdu_sel, key_sel):
    # a one-element list cannot be told from a scalar on the command line
    if isinstance(hdu_sel, list) and len(hdu_sel) < 2:
        return False
    if isinstance(key_sel, list) and len(key_sel) < 2:
        return False
    return True


def check_case(case, d, part):
    layouts, hdu_sel, key_sel, entry = case
    # a layout written "A=0" names the file of position 0 again (the same path twice in the input)
    paths = []
    for i, l in enumerate(layouts):
        if "=" in l:
            l, ref = l.split("=")
            paths.append(os.path.join(d, fname(int(ref), l)))
        else:
            paths.append(os.path.join(d, fname(i, l)))
    layouts = tuple(l.split("=")[0] for l in layouts)
    n = len(paths)
    # per-file expected selection
    exp_idx = []
    for i, l in enumerate(layouts):
        if hdu_sel is None:
            exp_idx.append(image_hdus(l)[0])
        elif isinstance(hdu_sel, int):
            exp_idx.append(hdu_sel)
        else:
            exp_idx.append(hdu_sel[i])
    exp_key = [key_sel if isinstance(key_sel, str) else key_sel[i] for i in range(n)]
    default_idx = [image_hdus(l)[0] for l in layouts]
    nontrivial = exp_idx != default_idx or any(k != " " for k in exp_key)
    part.case(nontrivial=nontrivial)
    kind_h = "none" if hdu_sel is None else ("scalar" if isinstance(hdu_sel, int) else "list")
    kind_k = "scalar" if isinstance(key_sel, str) else "list"
    cfg = {"layouts": list(layouts), "hdu_index": hdu_sel, "wcs_key": key_sel, "entry": entry}

    def bad(clause, detail):
        part.violation(
            "%s/hdu=%s/key=%s" % (clause, kind_h, kind_k),
            "%s: %s" % (cfg, detail),
            cfg,
        )

    # a scalar index naming an HDU without image data (the empty primary HDU): the index still "applies to every
    # file", so the only acceptable outcomes are a refusal or ... nothing else; returning some other HDU's image
    # means the selection was dropped
    names_empty = isinstance(hdu_sel, int) and any(LAYOUTS[l][hdu_sel] == "E" for l in layouts)
    try:
        with quiet():
            coll = build_collection(entry, paths, hdu_sel, key_sel)
            descs = list(coll.descriptions())
            imgs = list(coll.images())
            simple = list(coll.export_simple())
    except Exception as e:
        if names_empty:
            return
        bad("raises:%s" % type(e).__name__, repr(e))
        return
    if names_empty:
        bad("selection-ignored", "index %r names an HDU without image data in some file, yet the collection yields %d images of shapes %r" % (hdu_sel, len(imgs), [tuple(i.shape) for i in imgs]))
        return
    nh = [len(LAYOUTS[l]) for l in layouts]
    # (indices are compared as positions: -1 and the count minus one name the same HDU)
    simple = [(p_, (i_ % nh[j]) if isinstance(i_, int) else i_) for j, (p_, i_) in enumerate(simple)] if len(simple) == n else simple
    exp_pos = [i_ % nh[j] for j, i_ in enumerate(exp_idx)]
    if len(descs) != n or len(imgs) != n:
        bad("count", "got %d descriptions, %d images for %d inputs" % (len(descs), len(imgs), n))
        return
    if simple != [(p, i) for p, i in zip(paths, exp_pos)]:
        bad("export_simple", "export_simple=%r expected indices %r" % (simple, exp_idx))
    for i in range(n):
        data, w = expected(paths[i], exp_idx[i], exp_key[i])
        dsc, img = descs[i], imgs[i]
        if tuple(dsc.shape) != data.shape:
            bad("description-shape", "file %d desc shape %r expected %r" % (i, dsc.shape, data.shape))
        arr = img.asarray()
        if arr.shape != data.shape or not np.array_equal(arr, data):
            bad("image-data", "file %d image shape %r expected %r (HDU %d)" % (i, arr.shape, data.shape, exp_idx[i]))
        if tuple(dsc.shape) != tuple(img.shape):
            bad("desc-vs-image-shape", "file %d desc %r image %r" % (i, dsc.shape, img.shape))
        if wcs_sig(dsc.wcs) != wcs_sig(w):
            bad("description-wcs", "file %d desc wcs %r expected %r" % (i, wcs_sig(dsc.wcs), wcs_sig(w)))
        if wcs_sig(img.wcs) != wcs_sig(w):
            bad("image-wcs", "file %d image wcs %r expected %r" % (i, wcs_sig(img.wcs), wcs_sig(w)))
        if getattr(dsc, "collection_id", None) != paths[i] or getattr(img, "collection_id", None) != paths[i]:
            bad("order", "file %d collection ids %r/%r" % (i, getattr(dsc, "collection_id", None), getattr(img, "collection_id", None)))
    # what the tilers do with a collection (they put every description, and every image, into the parity they
    # need - in place), then the same collection object inspected again: it still reports the files' own contents
    try:
        with quiet():
            for dsc in descs:
                dsc.flip_parity()
            for img in imgs:
                img.flip_parity()
            descs2 = list(coll.descriptions())
            imgs2 = list(coll.images())
    except Exception as e:
        bad("raises-on-second-inspection:%s" % type(e).__name__, repr(e))
        return
    for i in range(min(n, len(descs2), len(imgs2))):
        data, w = expected(paths[i], exp_idx[i], exp_key[i])
        if wcs_sig(descs2[i].wcs) != wcs_sig(w) or tuple(descs2[i].shape) != data.shape:
            bad("description-after-use", "file %d: after the descriptions handed out earlier were flipped by a consumer, descriptions() reports wcs %r shape %r; the file has %r %r" % (i, wcs_sig(descs2[i].wcs), tuple(descs2[i].shape), wcs_sig(w), data.shape))
            break
        a2 = imgs2[i].asarray()
        if wcs_sig(imgs2[i].wcs) != wcs_sig(w) or a2.shape != data.shape or not np.array_equal(a2, data):
            bad("image-after-use", "file %d: after the images handed out earlier were flipped by a consumer, images() no longer yields the file's pixels / WCS" % i)
            break


def gen_cases(tier):
    lay_names = ["A", "B", "C"]
    if tier == "quick":
        combos = [("A",), ("C",), ("D",), ("V",), ("L",), ("A", "B"), ("B", "C"), ("D", "A"), ("L", "L"), ("V", "A"), ("A", "A=0"), ("C", "L"), ("C", "B"), ("A", "B", "C"), ("C", "A", "A"), ("B", "D", "B=0"), ("L", "V", "L")]
    else:
        lay_names = ["A", "B", "C", "D", "L", "V"]
        combos = []
        for n in (1, 2, 3):
            combos += list(itertools.product(lay_names, repeat=n))
        combos += [("A", "A=0"), ("D", "D=0"), ("A", "B", "A=0"), ("B", "D", "B=0"), ("C", "C=0", "C=0")]
    cases = []
    for layouts in combos:
        n = len(layouts)
        valid = [SELECTABLE.get(l.split("=")[0], image_hdus(l.split("=")[0])) for l in layouts]
        common = sorted(set(valid[0]).intersection(*valid[1:]))
        names = [l.split("=")[0] for l in layouts]
        # scalars counted from the end (each file's own last / last-but-one HDU), where that is an image in every file
        negative = [k for k in (-1, -2) if all(LAYOUTS[l][k] in "PIKUV" for l in names)]
        # index 0 where some file's primary HDU is empty (must not silently become "no selection")
        zero = [0] if any(LAYOUTS[l][0] == "E" for l in names) and "L" not in names else []
        hdu_sels = [None] + common + negative + zero + [list(t) for t in itertools.product(*valid)]
        key_sels = [" ", "A"] + [list(t) for t in itertools.product([" ", "A"], repeat=n)]
        for h in hdu_sels:
            for k in key_sels:
                for entry in ("load", "simple", "cli", "load_str"):
                    if isinstance(h, int) and h < 0 and entry == "cli":
                        continue  # a leading minus sign is an option to the argument parser
                    if entry == "cli" and not cli_expressible(h, k):
                        continue
                    if entry == "load_str" and n != 1:
                        continue
                    cases.append((layouts, h, k, entry))
                if isinstance(h, int) and (h < 0 or (h == 0 and zero)):
                    continue  # (the command-line routes run a whole tiling: kept to selections that can succeed)
                if cli_expressible(h, k):
                    cases.append((layouts, h, k, "view"))
                if isinstance(h, int) and isinstance(k, str):
                    cases.append((layouts, h, k, "multi-tan-cli"))
    return cases


def _work(chunk):
    part = Part()
    with scratch("c20") as d:
        made = set()
        for case in chunk:
            for i, l in enumerate(case[0]):
                if "=" in l:
                    continue
                if (i, l) not in made:
                    make_file(os.path.join(d, fname(i, l)), l, i)
                    made.add((i, l))
            check_case(case, d, part)
            if part.evaluations in (3, 40, 200):
                part.sample({"layouts": case[0], "hdu_index": case[1], "wcs_key": case[2], "entry": case[3]})
    return part


def tile_fits_end_to_end(part):
    """tile_fits(..., hdu_index=list): the tiles must hold the selected HDUs' values."""
    from astropy.io import fits
    import toasty
    from toasty.pyramid import PyramidIO, Pos

    with scratch("c20e") as d:
        paths = []
        for i in range(2):
            hdus = [fits.PrimaryHDU()]
            for j in (1, 2):
                data = np.full((40, 60), 1000.0 * (i + 1) + 100.0 * j, dtype=np.float32)
                h = fits.ImageHDU(data)
                _hdr_wcs(h.header, " ", 30.0, 40.0, 1e-3, 60, 40)
                # place the two files side by side on one pixel grid
                h.header["CRPIX1"] = 30.5 - 60 * i
                hdus.append(h)
            p = os.path.join(d, "in%d.fits" % i)
            fits.HDUList(hdus).writeto(p)
            paths.append(p)
        for sel in ([1, 2], [2, 1], [2, 2]):
            cfg = {"entry": "tile_fits", "hdu_index": sel}
            part.case(nontrivial=True)
            out = os.path.join(d, "out_%d%d" % tuple(sel))
            try:
                with quiet():
                    toasty.tile_fits(paths, out_dir=out, hdu_index=sel, parallel=1, cli_progress=False)
                pio = PyramidIO(out, default_format="fits")
                img = pio.read_image(Pos(0, 0, 0))
                vals = set(np.unique(img.asarray()[np.isfinite(img.asarray())]).tolist())
            except Exception as e:
                part.violation("raises:%s/entry=tile_fits/hdu=list" % type(e).__name__, "%s: %r" % (cfg, e), cfg)
                continue
            want = {1000.0 * (i + 1) + 100.0 * sel[i] for i in range(2)}
            if vals != want:
                part.violation("tile_fits-data/hdu=list", "%s: tile values %r expected %r" % (cfg, sorted(vals), sorted(want)), cfg)


def run(tier, seed):
    rep = Report(PROP, tier, seed, "exploration")
    rep.rule = (
        "every (file layouts, hdu_index in {None, common scalars, every per-file list of image HDUs}, "
        "wcs_key in {' ','A', every per-file list}, entry point in {load, load(str), SimpleFitsCollection, "
        "CollectionLoader.create_from_args}) ; non-trivial = selection differs from the default "
        "first-image-HDU / primary-WCS choice for at least one file"
    )
    rep.assumptions = [
        "oracle = direct astropy.io.fits / astropy.wcs reads of the same files",
        "selections naming a table or empty HDU are outside the property and not enumerated",
    ]
    cases = rng_order(gen_cases(tier), seed)
    nchunk = max(1, min(par.ncores(), len(cases) // 20))
    chunks = [cases[i::nchunk] for i in range(nchunk)]
    par.pmap(_work, chunks, rep)
    if tier == "thorough" or True:
        tile_fits_end_to_end(rep)
    return rep.finish()


def replay(payload):
    cfg = payload["replay"]
    part = Part()
    with scratch("c20r") as d:
        if cfg.get("entry") == "tile_fits":
            tile_fits_end_to_end(part)
        else:
            for i, l in enumerate(cfg["layouts"]):
                if "=" not in l:
                    make_file(os.path.join(d, fname(i, l)), l, i)
            check_case((tuple(cfg["layouts"]), cfg["hdu_index"], cfg["wcs_key"], cfg["entry"]), d, part)
    for sig, (detail, _) in part.violations.items():
        print("REPLAY-FAIL", sig, detail)
    return 1 if part.violations else 0
