"""C02 -- cascade output: every parent tile is the 2x2 downsample of its children mosaic.
(also hosts the shared machinery for C14, the FITS data-range property)

E2: every sparse leaf population in a bounded family x formats/modes x {no filter, filter
accepting every populated tile}, serial cascade on a fresh directory against the reference
merge model.  E1: the real TileMerger.walk_callback under the virtual multiprocessing
layer, all interleavings, every terminal tree equal to the serial tree.
"""
import itertools
import os
import shutil
import tempfile

import numpy as np

from vt import par, stages
from vt.explore import Harness
from vt.fixtures import scratch, quiet, rng_order, scratch_root
from vt.harness import Part, Report
from vt.monitors import Monitor
from vt.ref import merge as rm
from vt.ref import quadtree

PROP = "C02"

KINDS = {
    # name: (format, dtype, channels)
    "npy-F32": ("npy", "f4", 0),
    "npy-U8": ("npy", "u1", 0),
    "npy-I16": ("npy", "i2", 0),
    "png-RGBA": ("png", "u1", 4),
    "png-RGB": ("png", "u1", 3),
    "fits-F32": ("fits", "f4", 0),
    "npy-F64": ("npy", "f8", 0),
    "fits-F64": ("fits", "f8", 0),
    # C14 variants: a pixel of exactly 0.0 is the minimum (z) / the data are negated and 0.0 is the maximum (n)
    "fits-F32z": ("fits", "f4", 0),
    "fits-F32n": ("fits", "f4", 0),
    # c: some leaves are degenerate - a constant tile, or a single finite pixel - and hold the extremes
    "fits-F32c": ("fits", "f4", 0),
    # s: data of small magnitude (fluxes of a few 1e-9): ranges must not be rounded to a fixed number of decimals
    "fits-F32s": ("fits", "f4", 0),
    # half-precision colour tiles (three float channels; a pixel is undefined when its channels are NaN)
    "npy-F16x3": ("npy", "f2", 3),
    # i: some leaves hold nothing but NaN and a few infinite pixels (defined values)
    "npy-F32i": ("npy", "f4", 0),
}


def leaf(tid, kind):
    """Display-orientation content of leaf number `tid`: injective, asymmetric pattern with
    (a) all 16 undefined-patterns of a 2x2 block at 16 known block positions, (b) an undefined
    band along rows, (c) a fully defined quadrant."""
    fmt, dt, ch = KINDS[kind]
    yy, xx = np.mgrid[0:256, 0:256]
    base = yy * 256 + xx
    und = np.zeros((256, 256), bool)
    for p in range(16):
        r, c = 4 + 2 * p, 6 + 4 * p
        for b in range(4):
            if p >> b & 1:
                und[r + b // 2, c + b % 2] = True
    b0 = (13 * tid) % 100
    und[b0 : b0 + 9, : 200 - tid] = True  # band (rows < 128 only), not the full width
    und[150:153, 10:13] = tid % 2 == 0  # a small block in the lower half for even tiles
    if ch == 0 and dt[0] == "f":
        a = (tid * 700.0 + base * 0.01 + 0.5).astype(dt)
        if kind.endswith("z") or kind.endswith("n"):
            if tid % 2 == 0:
                a[200, 200 + tid % 40] = 0.0  # exactly zero: the extreme of this leaf
            if kind.endswith("n"):
                a = -a
        if kind.endswith("i") and tid % 2 == 1:
            a[...] = np.nan
            a[10:14, 20:24] = np.inf
            a[100, 7] = -np.inf
            und = np.zeros_like(und)
        if kind.endswith("s"):
            a = (a * np.float32(3e-12)).astype(dt)
        if kind.endswith("c"):
            if tid % 3 == 0:
                a[...] = 90000.0 + tid  # constant leaf above every other leaf's range (DATAMIN == DATAMAX)
            elif tid % 3 == 1:
                a[...] = np.nan
                a[17, 33 + tid] = -5000.0 - tid  # one finite pixel, below every other leaf's range
                und = np.zeros_like(und)
        a[und] = np.nan
    elif ch == 3 and dt == "f2":
        v = ((base % 1000) * 0.5 + tid).astype("f4")
        a = np.stack([v, v + 1.0, v * 0.25 + 2.0], axis=-1).astype("f2")
        a[und] = np.nan
        # pixels with NaN in one channel only: such a pixel is undefined as a whole (none of its channels counts)
        a[170:174, 40:60, 1] = np.nan
        a[(yy % 32 == 9) & (xx % 16 == 7), 2] = np.nan
    elif ch == 0:
        top = 255 if dt == "u1" else 32767  # up to the type's maximum (a sum of four must not wrap)
        a = ((base * 7 + tid * 31) % top + 1).astype(dt)
        a[240:, 240:] = top  # a block of maxima: four of them average to the maximum
        a[und] = 0
    elif ch == 4:
        a = np.stack([(base + tid * 17) % 256, (base // 3 + tid * 29) % 256, (base // 7 + tid) % 256, np.full_like(base, 255)], axis=-1).astype("u1")
        a[(yy % 16 == 5) & (xx % 8 == 3), 3] = 128  # some semi-transparent pixels
        a[60:64, 200:230, :3] = 0  # pure black, opaque and (next line) faint: defined pixels all the same
        a[62:64, 200:230, 3] = 63
        a[und] = 0
    else:
        a = np.stack([(base + tid * 17) % 256, (base // 3 + tid * 29) % 256, (base // 7 + tid) % 256], axis=-1).astype("u1")
        a[60:64, 200:230] = 0  # pure black
    return a


def to_disk(arr, fmt):
    return arr[::-1] if fmt == "fits" else arr


def write_leaves(pio, leaves, fmt):
    from toasty.image import Image
    from toasty.pyramid import Pos

    for pos, arr in leaves.items():
        pio.write_image(Pos(*pos), Image.from_array(np.ascontiguousarray(to_disk(arr, fmt)), default_format=fmt))


def read_tree(root, fmt, scheme="L/Y/YX"):
    """-> dict pos -> (display-orientation array, header or None) of every tile file."""
    from toasty.image import ImageLoader

    out = {}
    for d, _dirs, files in os.walk(root):
        for f in files:
            if not f.endswith("." + fmt):
                continue
            rel = os.path.relpath(os.path.join(d, f), root).split(os.sep)
            n, y = int(rel[0]), int(rel[1])
            x = int(rel[2].split(".")[0].split("_")[1])
            path = os.path.join(d, f)
            hdr = None
            if fmt == "fits":
                from astropy.io import fits

                with fits.open(path) as hd:
                    arr = np.array(hd[0].data)
                    hdr = dict((k, hd[0].header[k]) for k in ("DATAMIN", "DATAMAX") if k in hd[0].header)
                arr = arr[::-1]
            else:
                arr = np.asarray(ImageLoader().load_path(path).asarray())
            out[(n, x, y)] = (arr, hdr)
    return out


def expected_tree(leaves, start, kind):
    fmt, dt, ch = KINDS[kind]
    conv = {}
    for pos, a in leaves.items():
        if ch == 3 and dt == "u1":
            conv[pos] = np.concatenate([a, np.full(a.shape[:2] + (1,), 255, "u1")], axis=2)
        elif ch == 3 and dt == "f2":
            b = a.copy()
            b[np.isnan(b).any(axis=2)] = np.nan
            conv[pos] = b
        else:
            conv[pos] = a
    return rm.cascade(conv, start, np.dtype(dt), (3 if dt == "f2" else 4) if ch in (3, 4) else 0)


def same_pixels(a, b):
    if a.shape != b.shape or a.dtype.kind != b.dtype.kind or a.dtype.itemsize != b.dtype.itemsize:
        return False
    if a.dtype.kind == "f":
        # means are compared up to the rounding of the accumulation order; undefined positions exactly
        na, nb = np.isnan(a), np.isnan(b)
        if not np.array_equal(na, nb):
            return False
        rtol = {2: 2e-3, 4: 2e-6}.get(a.dtype.itemsize, 1e-12)  # two units in the last place of the stored type
        # a mean of values of mixed sign can cancel: the rounding error scales with the inputs
        scale = float(np.max(np.abs(b[~nb]))) if (~nb).any() else 0.0
        return bool(np.allclose(a[~na], b[~nb], rtol=rtol, atol=rtol * scale))
    return np.array_equal(a, b)


def population_positions(pop, start):
    """pop: tuple of leaf indices (0 .. 4^start - 1) in row-major order at level `start`."""
    side = 2**start
    return [(start, k % side, k // side) for k in pop]


def serial_case(d, start, pop, kind, use_filter, part, check_range=False, prop_sig="", entry="api"):
    from toasty.merge import cascade_images, averaging_merger
    from toasty.pyramid import PyramidIO

    fmt, dt, ch = KINDS[kind]
    cfg = {"start": start, "population": list(pop), "kind": kind, "filter": use_filter, "entry": entry}
    positions = population_positions(pop, start)
    part.case(nontrivial=0 < len(pop) < 4**start)

    def bad(clause, detail):
        part.violation("%s/%s" % (clause, kind), "%r: %s" % (cfg, detail), cfg)

    # the command-line and format-guessing entries work in a directory whose PATH holds dots (a survey.v2/
    # component): the tile format is guessed from the files, not from the directory names
    root = os.path.join(d, "survey.v2", ".cache", "p") if entry in ("cli", "api-guess") else os.path.join(d, "p")
    shutil.rmtree(root, ignore_errors=True)
    pio = PyramidIO(root, default_format=fmt)
    side = 2**start
    leaves = {pos: leaf(pos[2] * side + pos[1], kind) for pos in positions}
    tf = None
    if use_filter:
        acc = set()
        for pos in positions:
            q = pos
            while q[0] >= 1:
                acc.add(tuple(q))
                q = (q[0] - 1, q[1] // 2, q[2] // 2)
        tf = lambda t: tuple(t.pos) in acc
    try:
        with quiet():
            write_leaves(pio, leaves, fmt)
            if entry == "cli":
                # the `toasty cascade` command (format guessed from the files on disk)
                from toasty import cli

                cli.entrypoint(["cascade", "--parallelism", "1", "--start", str(start), root])
            elif entry == "api-guess":
                cascade_images(PyramidIO(root), start, averaging_merger, parallel=1)
            elif entry == "api-after-loader-options":
                # an input image was loaded earlier in this process with every loader option away from its default
                import argparse
                from toasty.image import ImageLoader
                from PIL import Image as PILImage

                src = os.path.join(d, "input.png")
                PILImage.fromarray(np.full((9, 7, 3), 70, dtype="u1")).save(src)
                ImageLoader.create_from_args(argparse.Namespace(black_to_transparent=True, colorspace_processing="none", psd_single_layer=0, crop="1")).load_path(src)
                cascade_images(pio, start, averaging_merger, parallel=1, tile_filter=tf)
            elif entry == "builder":
                from toasty.builder import Builder

                b = Builder(pio)
                b.imgset.tile_levels = start
                b.cascade(parallel=1)
            else:
                cascade_images(pio, start, averaging_merger, parallel=1, tile_filter=tf)
    except SystemExit as e:
        bad("cascade-exits", "exit code %r" % (e.code,))
        return
    except Exception as e:
        bad("cascade-raises:%s" % type(e).__name__, repr(e))
        return
    got = read_tree(root, fmt)
    want = expected_tree(leaves, start, kind)
    compare_trees(got, want, start, kind, bad, check_range, leaves)


def compare_trees(got, want, start, kind, bad, check_range, leaves):
    fmt, dt, ch = KINDS[kind]
    above_got = set(p for p in got if p[0] < start)
    above_want = set(p for p in want if p[0] < start)
    if above_got != above_want:
        missing = sorted(above_want - above_got)
        extra = sorted(above_got - above_want)
        bad("parent-set", "tiles missing %r, unexpected %r" % (missing[:3], extra[:3]))
    for pos in sorted(above_got & above_want, key=lambda p: (-p[0], p[2], p[1])):
        g = got[pos][0]
        w = want[pos]
        if ch == 3 and dt == "u1" and g.ndim == 3 and g.shape[2] == 3:
            w = w[..., :3]
        if not same_pixels(g, w):
            if g.shape != w.shape or g.dtype.kind != w.dtype.kind or g.dtype.itemsize != w.dtype.itemsize:
                bad("parent-shape-or-type", "tile %r has shape %r dtype %s, expected %r %s" % (pos, g.shape, g.dtype, w.shape, w.dtype))
            else:
                rt = {2: 2e-3, 4: 2e-6}.get(g.dtype.itemsize, 1e-12)
                eq = (np.isclose(g, w, rtol=rt, atol=rt * float(np.nanmax(np.abs(w)))) | ((g != g) & (w != w))) if g.dtype.kind == "f" else (g == w)
                if eq.ndim == 3:
                    eq = eq.all(axis=2)
                idx = np.argwhere(~eq)
                r, c = idx[0]
                quad = "quadrant(%d,%d)" % (c // 128, r // 128)
                bad("parent-pixels", "tile %r differs from the 2x2 reduction of its children mosaic at %d pixels, first (row %d, col %d) in %s: got %r want %r" % (pos, len(idx), r, c, quad, g[r, c].tolist(), w[r, c].tolist()))
            break
    if check_range and fmt == "fits":
        # C14: DATAMIN/DATAMAX of every tile = range of the finite leaf pixels beneath it
        for pos in sorted(above_got | set(p for p in got if p[0] == start)):
            hdr = got[pos][1] or {}
            vals = []
            for lp, a in leaves.items():
                s = lp[0] - pos[0]
                if s >= 0 and (lp[1] >> s, lp[2] >> s) == (pos[1], pos[2]):
                    f = a[np.isfinite(a)]
                    if f.size:
                        vals.append((f.min(), f.max()))
            if not vals:
                continue
            lo = np.float32(min(v[0] for v in vals)) if KINDS[kind][1] == "f4" else min(v[0] for v in vals)
            hi = np.float32(max(v[1] for v in vals)) if KINDS[kind][1] == "f4" else max(v[1] for v in vals)
            if "DATAMIN" not in hdr or "DATAMAX" not in hdr:
                bad("range/header-missing", "tile %r has no DATAMIN/DATAMAX" % (pos,))
                break
            if not (np.isclose(hdr["DATAMIN"], lo, rtol=2e-7, atol=0) and np.isclose(hdr["DATAMAX"], hi, rtol=2e-7, atol=0)):
                level = "leaf" if pos[0] == start else ("root" if pos[0] == 0 else "inner")
                bad("range/differs-from-leaf-range/%s" % level, "tile %r records DATAMIN/DATAMAX = %r/%r, the leaves beneath it span %r/%r" % (pos, hdr["DATAMIN"], hdr["DATAMAX"], float(lo), float(hi)))
                break


def recascade_case(d, kind, part):
    """A history on one directory: cascade; a populated leaf's file becomes entirely undefined (and
    another leaf disappears); cascade again.  Parents whose merged result is now entirely undefined, or
    that have no child left, must be gone; the others must be the reduction of the *current* children."""
    from toasty.merge import cascade_images, averaging_merger
    from toasty.pyramid import PyramidIO, Pos
    from toasty.image import Image

    fmt, dt, ch = KINDS[kind]
    cfg = {"recascade": True, "kind": kind}
    part.case(nontrivial=True)

    def bad(clause, detail):
        part.violation("%s/%s" % (clause, kind), "%r: %s" % (cfg, detail), cfg)

    root = os.path.join(d, "rc")
    shutil.rmtree(root, ignore_errors=True)
    pio = PyramidIO(root, default_format=fmt)
    pop = (0, 1, 10, 15)  # A=(1,0,0): leaves 0,1 ; B=(1,1,1): leaves 10, 15
    positions = population_positions(pop, 2)
    leaves = {pos: leaf(pos[2] * 4 + pos[1], kind) for pos in positions}
    try:
        with quiet():
            write_leaves(pio, leaves, fmt)
            cascade_images(pio, 2, averaging_merger, parallel=1)
            # leaf 10 and 15 (all of B's children) are replaced by entirely undefined tiles whose files still
            # exist (written by other means); leaf 1 is deleted
            blank = leaves[positions[2]].copy()
            if dt[0] == "f":
                blank[...] = np.nan
            else:
                blank[...] = 0
            for pos in (positions[2], positions[3]):
                Image.from_array(np.ascontiguousarray(to_disk(blank, fmt))).save(pio.tile_path(Pos(*pos)), format=fmt)
                leaves[pos] = blank
            os.unlink(pio.tile_path(Pos(*positions[1])))
            del leaves[positions[1]]
            cascade_images(pio, 2, averaging_merger, parallel=1)
    except Exception as e:
        bad("recascade-raises:%s" % type(e).__name__, repr(e))
        return
    got = read_tree(root, fmt)
    want = expected_tree(leaves, 2, kind)
    above_got = set(p for p in got if p[0] < 2)
    above_want = set(p for p in want if p[0] < 2)
    stale = sorted(above_got - above_want)
    if stale:
        bad("recascade/stale-parent-survives", "after the second cascade tiles %r still exist although their merged result is entirely undefined (or they have no child left)" % (stale,))
    compare_trees({p: v for p, v in got.items() if p not in stale}, want, 2, kind, bad, False, leaves)


def populations(tier, start):
    if start == 1:
        return [tuple(k for k in range(4) if m >> k & 1) for m in range(16)]
    if start == 2:
        pops = []
        # level-1 parents A=(0,0), B=(1,1): any of the 16 subsets of their leaves; C=(1,0), D=(0,1) empty or full
        def kids(px, py):
            return [(2 * py + j) * 4 + (2 * px + i) for j in (0, 1) for i in (0, 1)]

        A, B, C, D = kids(0, 0), kids(1, 1), kids(1, 0), kids(0, 1)
        cd_opts = [(False, False), (True, False), (False, True), (True, True)] if tier == "thorough" else [(False, False), (True, False)]
        for ma in range(16):
            for mb in range(16):
                for (c, dd) in cd_opts:
                    pop = [A[k] for k in range(4) if ma >> k & 1] + [B[k] for k in range(4) if mb >> k & 1] + (C if c else []) + (D if dd else [])
                    pops.append(tuple(sorted(pop)))
        return pops
    # depth 3: sparse chains
    pops = [(0,), (63,), (0, 63), (9, 18, 27), (0, 1, 8, 9), tuple(range(0, 64, 7)), tuple(range(64))]
    return pops


def _serial_job(job):
    part = Part()
    prop_range = job[0]
    with scratch("c02") as d:
        for item in job[1]:
            if item[0] == "recascade":
                recascade_case(d, item[1], part)
                continue
            (start, pop, kind, flt) = item[:4]
            serial_case(d, start, pop, kind, flt, part, check_range=prop_range, entry=item[4] if len(item) > 4 else "api")
        first = [it for it in job[1] if it[0] != "recascade"]
        if first:
            part.sample({"start": first[0][0], "population": list(first[0][1]), "kind": first[0][2], "filter": first[0][3]})
    return part


# --- E1: the real merger under all interleavings ------------------------------------------------


class CascadeHarness(stages.StageHarness):
    stage = "cascade"
    io_points = False

    def _setup(self):
        if getattr(self, "_tmpl", None) is None:
            from toasty.merge import cascade_images, averaging_merger
            from toasty.pyramid import PyramidIO

            fmt = KINDS[self.kind][0]
            self._tmpl = tempfile.mkdtemp(prefix="verif-c02t-", dir=scratch_root())
            side = 2**self.start
            self._leaves = {pos: leaf(pos[2] * side + pos[1], self.kind) for pos in population_positions(self.pop, self.start)}
            with quiet():
                write_leaves(PyramidIO(self._tmpl, default_format=fmt), self._leaves, fmt)
            ser = tempfile.mkdtemp(prefix="verif-c02s-", dir=scratch_root())
            shutil.rmtree(ser)
            shutil.copytree(self._tmpl, ser)
            with quiet():
                cascade_images(PyramidIO(ser, default_format=fmt), self.start, averaging_merger, parallel=1, tile_filter=self._filter())
            self._serial = read_tree(ser, fmt)
            shutil.rmtree(ser, ignore_errors=True)

    def _filter(self):
        if not getattr(self, "flt", False):
            return None
        acc = set()
        for pos in population_positions(self.pop, self.start):
            q = pos
            while q[0] >= 1:
                acc.add(tuple(q))
                q = (q[0] - 1, q[1] // 2, q[2] // 2)
        return stages._mk_filter(sorted(acc))

    def expected_items(self):
        return []

    def fresh(self):
        from toasty.merge import cascade_images, averaging_merger
        from toasty.pyramid import PyramidIO

        self._setup()
        fmt = KINDS[self.kind][0]
        root = tempfile.mkdtemp(prefix="verif-c02-", dir=scratch_root())
        shutil.rmtree(root)
        shutil.copytree(self._tmpl, root)
        pio = PyramidIO(root, default_format=fmt)
        W, start, tf = self.W, self.start, self._filter()

        def main():
            cascade_images(pio, start, averaging_merger, parallel=W, tile_filter=tf)

        return main, Monitor(), root

    def cleanup(self, root):
        shutil.rmtree(root, ignore_errors=True)

    def at_terminal(self, sched, mon):
        viol = []
        main = sched.main()
        if main.outcome[0] != "return":
            return [("stage-raised", "cascade raised %s: %s" % (main.outcome[1], main.outcome[2]))], ("raise",)
        fmt = KINDS[self.kind][0]
        got = read_tree(sched.root, fmt)
        ok = set(got) == set(self._serial)
        first = None
        if ok:
            for pos in got:
                if not same_pixels(got[pos][0], self._serial[pos][0]) or got[pos][1] != self._serial[pos][1]:
                    ok = False
                    first = pos
                    break
        if not ok:
            viol.append(("parallel-result-differs-from-serial", "tile set or pixels differ from the serial cascade (first differing tile %r; sets equal=%r)" % (first, set(got) == set(self._serial))))
        alive = [p.name for p in sched.procs[1:] if not p.done]
        if alive:
            viol.append(("returned-before-workers-exited", repr(alive)))
        return viol, ("same" if ok else "differs",)

    def __del__(self):
        t = getattr(self, "_tmpl", None)
        if t:
            shutil.rmtree(t, ignore_errors=True)


stages.HARNESSES["CascadeHarness"] = CascadeHarness


def e1_configs(tier, kinds):
    cfgs = []
    for kind in kinds:
        cfgs.append(CascadeHarness(kind=kind, start=1, pop=(0, 1, 2, 3), W=2))
    # one live level-1 parent with all four leaves, then the root (two merges)
    cfgs.append(CascadeHarness(kind=kinds[0], start=2, pop=(0, 1, 4, 5), W=2, flt=True))
    # ... and a parent whose only populated child is the bottom-right one
    cfgs.append(CascadeHarness(kind=kinds[-1], start=2, pop=(5,), W=2, flt=True))
    if tier == "thorough":
        k = kinds[0]
        # two live level-1 parents (three merges); the second has all four children, so a stale
        # per-process merge buffer would show through its undefined pixels
        for kind in kinds:
            cfgs.append(CascadeHarness(kind=kind, start=2, pop=(0, 10, 11, 14, 15), W=2, flt=True))
        # three live level-1 parents + root with real merges (the full 16-leaf protocol is explored,
        # without real I/O, by C01's thorough tier)
        cfgs.append(CascadeHarness(kind=k, start=2, pop=(0, 1, 4, 5, 2, 10, 11), W=2, flt=True))
        cfgs.append(CascadeHarness(kind=k, start=1, pop=(0, 3), W=3))
        cfgs.append(CascadeHarness(kind=k, start=2, pop=(0, 1, 4, 5, 2, 3, 6, 7, 10), W=2, flt=True))
    return cfgs


def _e1(cfg):
    p = stages.explore_to_part(cfg, PROP)
    t = getattr(cfg, "_tmpl", None)
    if t:
        shutil.rmtree(t, ignore_errors=True)
    return p


def _job(j):
    if j[0] == "e1":
        return _e1(j[1])
    return _serial_job(j[1:])


def build_jobs(tier, seed, kinds, check_range, e1_kinds):
    cases = []
    for kind in kinds:
        for start in (1, 2):
            pops = populations(tier, start)
            for k, pop in enumerate(pops):
                if not pop and start == 2:
                    continue
                cases.append((start, pop, kind, False))
                if k % 4 == 1 and pop:
                    cases.append((start, pop, kind, True))
        if tier == "thorough":
            for pop in populations(tier, 3):
                cases.append((3, pop, kind, False))
                cases.append((3, pop, kind, True))
        elif kind in kinds[:3]:
            # three levels of merging over sparse leaves: row directories of the intermediate levels come into being
            # while the cascade is under way
            for pop in [(63,), (0, 63), (9, 18, 27), (7, 56), (5, 23, 40, 62)]:
                cases.append((3, pop, kind, False))
    # other entry points that reach the same merger: the command line and Builder.cascade
    for kind in kinds:
        if kind.startswith("fits-F32") and kind != "fits-F32":
            continue
        for pop in [(0, 5, 10, 15), (0, 1, 4, 5, 10), tuple(range(16))]:
            cases.append((2, pop, kind, False, "cli"))
            cases.append((2, pop, kind, False, "builder"))
            cases.append((2, pop, kind, False, "api-guess"))
            if KINDS[kind][0] == "png":
                cases.append((2, pop, kind, False, "api-after-loader-options"))
    for kind in kinds:
        if KINDS[kind][2] in (0, 4) and KINDS[kind][1][0] == "f" or KINDS[kind][2] == 4:
            cases.append(("recascade", kind))
    cases = rng_order(cases, seed)
    n = 40
    jobs = [("serial", check_range, cases[i::n]) for i in range(n) if cases[i::n]]
    cfgs = e1_configs(tier, e1_kinds)
    for c in cfgs:
        c.seed = seed
    return [("e1", c) for c in cfgs] + jobs


def run(tier, seed):
    rep = Report(PROP, tier, seed, "model_checking")
    kinds = ["npy-F32", "npy-U8", "png-RGBA", "png-RGB", "fits-F32", "npy-F32i", "npy-I16", "npy-F16x3"] + (["npy-F64"] if tier == "thorough" else [])
    rep.rule = (
        "E2: start depth 1 (all 16 leaf subsets) and 2 (%d sparse populations) and 3 (5 sparse chains for three kinds; 7 populations for all kinds in the thorough tier), formats %r, without a filter and with one accepting every populated tile: "
        "serial cascade vs reference merge, pixel-exact. E1: real TileMerger under the virtual scheduler, all interleavings, terminal tree = serial tree. "
        "states = distinct canonical states of the E1 explorations; non-trivial = sparse population" % (len(populations(tier, 2)), kinds)
    )
    rep.assumptions = stages.ASSUMPTIONS + [
        "transparent RGBA leaf pixels carry RGB=0, so 'mean of the four stored values' is unambiguous",
        "integer leaves avoid all-zero tiles (that case is C15's known finding)",
        "jpg (lossy) is not compared",
    ]
    jobs = build_jobs(tier, seed, kinds, False, ["npy-F32", "fits-F32"] if tier == "quick" else ["npy-F32", "fits-F32", "png-RGBA"])
    par.pmap(_job, jobs, rep)
    stages.finish_model_report(rep)
    return rep.finish()


def replay(payload):
    r = payload["replay"]
    if "schedule" in r:
        c = dict(r["config"])
        c.pop("stage", None)
        c["pop"] = tuple(c["pop"])
        cfg = CascadeHarness(**c)
        from vt.explore import run_labels

        ex = run_labels(cfg, r["schedule"])
        try:
            viol = ex.step_violations()
            if ex.main_finished():
                viol += cfg.at_terminal(ex.sched, ex.monitor)[0]
        finally:
            ex.close()
        for sig, detail in viol:
            print("REPLAY-FAIL", sig, detail)
        return 1 if viol else 0
    part = Part()
    if r.get("recascade"):
        with scratch("c02r") as d:
            recascade_case(d, r["kind"], part)
        for sig, (detail, _) in part.violations.items():
            print("REPLAY-FAIL", sig, detail[:400])
        return 1 if part.violations else 0
    with scratch("c02r") as d:
        serial_case(d, r["start"], tuple(r["population"]), r["kind"], r["filter"], part, check_range=True, entry=r.get("entry", "api"))
    for sig, (detail, _) in part.violations.items():
        print("REPLAY-FAIL", sig, detail[:400])
    return 1 if part.violations else 0
