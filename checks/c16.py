"""C16 -- flipping image parity reverses rows but moves no pixel on the sky.

Bounded-exhaustive lattice of linear celestial WCS (projection, rotation, scale, skew,
both parities, reference pixel inside/outside, reference value incl. near a pole and
RA~0) x image sizes x {Image with data, ImageDescription}; every pixel's world
coordinates before the flip equal those of the row-mirrored pixel after it.
"""
import itertools

import numpy as np

from vt import par
from vt.harness import Part, Report

PROP = "C16"


EXACT = {
    # exactly representable matrices (zero entries are exactly 0.0, as a header written by hand has them)
    "quarter1": [[0.0, -1.0], [1.0, 0.0]],
    "quarter3": [[0.0, 1.0], [-1.0, 0.0]],
    "half": [[-1.0, 0.0], [0.0, -1.0]],
    "shear0": [[0.0, 1.0], [1.0, 1.0]],
    # triangular matrices: one off-diagonal entry is exactly 0 (and so absent from a CDELT+PC header), the other is
    # large enough to decide the sign of the determinant if the absent one were given a wrong default
    "lower2": [[1.0, 0.0], [2.0, 1.0]],
    "lowerm2": [[1.0, 0.0], [-2.0, 1.0]],
    "upper2": [[1.0, 2.0], [0.0, 1.0]],
    "upperm2": [[1.0, -2.0], [0.0, 1.0]],
}


def make_wcs(proj, theta, scale, skew, parity, crpix, crval):
    from astropy.wcs import WCS

    if proj.endswith("-LATFIRST"):
        # the same linear WCS with the world axes in the other order (CTYPE1 = DEC--, CTYPE2 = RA---)
        b = make_wcs(proj[: -len("-LATFIRST")], theta, scale, skew, parity, crpix, crval)
        w = WCS(naxis=2)
        w.wcs.ctype = [b.wcs.ctype[1], b.wcs.ctype[0]]
        w.wcs.crval = [b.wcs.crval[1], b.wcs.crval[0]]
        w.wcs.crpix = list(b.wcs.crpix)
        if b.wcs.has_cd():
            w.wcs.cd = np.array(b.wcs.cd)[[1, 0], :]
        else:
            w.wcs.cdelt = [b.wcs.cdelt[1], b.wcs.cdelt[0]]
            w.wcs.pc = np.array(b.wcs.pc)[[1, 0], :]
        return w

    if proj.endswith("-POLE"):
        # the same WCS with a non-default native longitude/latitude of the celestial pole (LONPOLE, LATPOLE)
        w = make_wcs(proj[: -len("-POLE")], theta, scale, skew, parity, crpix, crval)
        w.wcs.lonpole = 150.0
        w.wcs.latpole = 30.0
        w.wcs.set()
        return w

    if isinstance(theta, str):
        w = WCS(naxis=2)
        w.wcs.ctype = ["RA---" + proj, "DEC--" + proj]
        w.wcs.crval = list(crval)
        m = np.array(EXACT[theta]) @ np.diag([-scale[0] if parity < 0 else scale[0], scale[1]])
        if skew:
            # CDELT + PC form instead of a CD matrix
            w.wcs.cdelt = [scale[0], scale[1]]
            w.wcs.pc = np.array(EXACT[theta]) @ np.diag([-1.0 if parity < 0 else 1.0, 1.0])
        else:
            w.wcs.cd = m
        w.wcs.crpix = list(crpix)
        return w
    w = WCS(naxis=2)
    w.wcs.ctype = ["RA---" + proj, "DEC--" + proj]
    w.wcs.crval = list(crval)
    t = np.radians(theta)
    R = np.array([[np.cos(t), -np.sin(t)], [np.sin(t), np.cos(t)]])
    S = np.array([[1.0, skew], [0.0, 1.0]])
    D = np.diag([-scale[0] * parity * -1 if False else (-scale[0] if parity < 0 else scale[0]), scale[1]])
    # parity < 0 (JPEG-like): RA decreases with x and Dec increases with y seen top-down => det > 0 ... the
    # sign convention is toasty's: what matters here is that both signs of the determinant occur.
    cd = R @ S @ D
    w.wcs.cd = cd
    w.wcs.crpix = list(crpix)
    return w


def world(w, xs, ys):
    out = w.all_pix2world(xs, ys, 0)
    return np.asarray(out[w.wcs.lng]), np.asarray(out[w.wcs.lat])


def sep_deg(ra1, dec1, ra2, dec2):
    r1, d1, r2, d2 = map(np.radians, (ra1, dec1, ra2, dec2))
    v1 = np.stack([np.cos(d1) * np.cos(r1), np.cos(d1) * np.sin(r1), np.sin(d1)], -1)
    v2 = np.stack([np.cos(d2) * np.cos(r2), np.cos(d2) * np.sin(r2), np.sin(d2)], -1)
    return np.degrees(2 * np.arcsin(np.clip(np.linalg.norm(v1 - v2, axis=-1) / 2, 0, 1)))


def handedness(wcs, w_, h_):
    """toasty's convention: +1 (FITS-like) when, seen on the sky with north up and east left, the pixel
    y axis points along +x cross ... i.e. the determinant of d(world)/d(pixel) is negative.  Computed
    numerically around the reference pixel, independent of the CD/PC/CDELT bookkeeping."""
    x0, y0 = wcs.wcs.crpix[0] - 1, wcs.wcs.crpix[1] - 1
    ra, dec = world(wcs, [x0, x0 + 1e-3, x0], [y0, y0, y0 + 1e-3])
    if not (np.all(np.isfinite(ra)) and np.all(np.isfinite(dec))):
        return None
    cd = np.cos(np.radians(dec[0]))
    dra = (np.array(ra[1:]) - ra[0] + 180) % 360 - 180
    j = np.array([[dra[0] * cd, dra[1] * cd], [dec[1] - dec[0], dec[2] - dec[0]]])
    det = np.linalg.det(j)
    if det == 0:
        return None
    return 1 if det < 0 else -1


def case(job):
    from toasty.image import Image, ImageDescription, ImageMode

    part = Part()
    for (proj, theta, scale, skew, parity, crpix_kind, crval, size, kind) in job:
        w_, h_ = size
        crpix = {"centre": ((w_ + 1) / 2.0, (h_ + 1) / 2.0), "foreign-naxis": ((w_ + 1) / 2.0 + 0.25, (h_ + 1) / 2.0), "corner": (1.0, 1.0), "outside-a": (-20.0, 3.0 * h_), "outside-b": (2.0 * w_, -5.0)}[crpix_kind]
        cfg = {"proj": proj, "theta": theta, "scale": scale, "skew": skew, "parity_in": parity, "crpix": crpix_kind, "crval": crval, "size": size, "kind": kind}
        part.case(nontrivial=(isinstance(theta, str) or theta != 0 or skew != 0 or crpix_kind != "centre"))

        def bad(clause, detail):
            part.violation("%s/%s" % (clause, kind), "%r: %s" % (cfg, detail), cfg)

        # a thousandth of a pixel, never looser than 1e-9 degree, plus the resolution of a double at 360 degrees
        TOL = min(1e-9, 1e-3 * min(scale)) + 2e-13
        wcs = make_wcs(proj, theta, scale, skew, parity, crpix, crval)
        if crpix_kind == "foreign-naxis":
            # the WCS object remembers the array size of the FITS file it was read from (NAXISn), which is not the
            # size of the image it is attached to (a preview, a cut-out)
            wcs.array_shape = (h_ + 7, w_ + 3)
        data = (np.arange(w_ * h_, dtype=np.float32).reshape(h_, w_) + 1)
        try:
            if kind == "image":
                obj = Image.from_array(data.copy(), wcs=wcs.deepcopy(), default_format="fits")
            elif kind == "image-pil":
                # a bitmap loaded through PIL, whose pixel array has already been looked at
                from PIL import Image as PI

                rgb = np.stack([(data % 251), (data // 251) % 251, np.full_like(data, 9)], axis=-1).astype(np.uint8)
                obj = Image.from_pil(PI.fromarray(rgb), wcs=wcs.deepcopy())
                data = rgb
                if not np.array_equal(np.asarray(obj.asarray()), rgb):
                    bad("pil-image-data", "PIL-backed image does not return its pixels")
            elif kind == "description":
                obj = ImageDescription(mode=ImageMode.F32, shape=(h_, w_), wcs=wcs.deepcopy())
            else:
                # a data-less description of a colour image: shape (height, width, planes)
                obj = ImageDescription(mode=ImageMode.RGB, shape=(h_, w_, 3), wcs=wcs.deepcopy())
            p0 = obj.get_parity_sign()
            ys, xs = np.mgrid[0:h_, 0:w_]
            ra0, dec0 = world(obj.wcs, xs.ravel(), ys.ravel())
            # a second description built on the very same WCS instance must not be affected by the flip
            twin = ImageDescription(mode=ImageMode.F32, shape=(h_, w_), wcs=obj.wcs)
            obj.flip_parity()
            rat, dect = world(twin.wcs, xs.ravel(), ys.ravel())
            okt = np.isfinite(ra0) & np.isfinite(rat)
            if okt.any() and sep_deg(ra0[okt], dec0[okt], rat[okt], dect[okt]).max() > TOL:
                bad("flip-mutates-shared-wcs", "flipping one object changed another object built on the same WCS instance")
            p1 = obj.get_parity_sign()
            ra1, dec1 = world(obj.wcs, xs.ravel(), (h_ - 1 - ys).ravel())
        except Exception as e:
            bad("raises:%s" % type(e).__name__, repr(e))
            continue
        if p0 not in (1, -1) or p1 != -p0:
            bad("parity-not-negated", "parity %r before, %r after the flip" % (p0, p1))
        # the reported sign is the handedness of the pixel grid on the sky (independent numerical Jacobian)
        # (for latitude-first axis order the statement does not say what the sign means: clause skipped)
        hp = handedness(wcs, w_, h_) if not proj.endswith("-LATFIRST") else None
        if hp is not None and p0 != hp:
            bad("parity-sign-wrong", "get_parity_sign() = %r but the pixel grid's handedness on the sky gives %r" % (p0, hp))
        ok = np.isfinite(ra0) & np.isfinite(ra1)
        if ok.any():
            d = sep_deg(ra0[ok], dec0[ok], ra1[ok], dec1[ok])
            if d.max() > TOL:
                k = int(np.argmax(d))
                bad("pixel-moved-on-sky", "pixel moved by %.3g deg (max over %d pixels)" % (d.max(), ok.sum()))
        if kind in ("image", "image-pil"):
            if not np.array_equal(np.asarray(obj.asarray()), data[::-1]):
                bad("rows-not-reversed", "data after flip is not the row-reversed input")
        # double flip is the identity
        try:
            obj.flip_parity()
            ra2, dec2 = world(obj.wcs, xs.ravel(), ys.ravel())
            if obj.get_parity_sign() != p0:
                bad("double-flip-parity", "parity after two flips %r" % obj.get_parity_sign())
            if ok.any() and sep_deg(ra0[ok], dec0[ok], ra2[ok], dec2[ok]).max() > TOL:
                bad("double-flip-not-identity", "two flips move pixels on the sky")
            if kind in ("image", "image-pil") and not np.array_equal(np.asarray(obj.asarray()), data):
                bad("double-flip-data", "two flips do not restore the data")
            # ensure_negative_parity: yields -1 from both starting parities, idempotent, sky-preserving
            obj.ensure_negative_parity()
            pe = obj.get_parity_sign()
            flipped = pe != p0
            rae, dece = world(obj.wcs, xs.ravel(), ((h_ - 1 - ys) if flipped else ys).ravel())
            obj.ensure_negative_parity()
            if pe != -1 or obj.get_parity_sign() != -1:
                bad("ensure_negative_parity", "parity %r after ensure_negative_parity (twice: %r)" % (pe, obj.get_parity_sign()))
            raf, decf = world(obj.wcs, xs.ravel(), ((h_ - 1 - ys) if flipped else ys).ravel())
            if ok.any() and max(sep_deg(ra0[ok], dec0[ok], rae[ok], dece[ok]).max(), sep_deg(ra0[ok], dec0[ok], raf[ok], decf[ok]).max()) > TOL:
                bad("ensure_negative_parity-moves-pixels", "ensure_negative_parity moved pixels on the sky or is not idempotent")
            if kind in ("image", "image-pil") and not np.array_equal(np.asarray(obj.asarray()), data[::-1] if flipped else data):
                bad("ensure_negative_parity-data", "data not consistent with the WCS after ensure_negative_parity")
            # histories on the one instance: ensure, flip, ensure (and flip, ensure): always -1 afterwards
            obj.flip_parity()
            if obj.get_parity_sign() != 1:
                bad("flip-after-ensure", "flip_parity() after ensure_negative_parity() left parity %r" % obj.get_parity_sign())
            obj.ensure_negative_parity()
            if obj.get_parity_sign() != -1:
                bad("ensure_negative_parity-after-flip", "ensure_negative_parity(), flip_parity(), ensure_negative_parity() left parity %r" % obj.get_parity_sign())
            rag, decg = world(obj.wcs, xs.ravel(), ((h_ - 1 - ys) if flipped else ys).ravel())
            if ok.any() and sep_deg(ra0[ok], dec0[ok], rag[ok], decg[ok]).max() > TOL:
                bad("ensure_negative_parity-after-flip", "the ensure/flip/ensure history moved pixels on the sky")
            # ONE WCS instance shared by several images of different heights (a frame and versions with rows
            # trimmed off or added at the end), each of them flipped: every one keeps its pixels on the sky
            shared = wcs.deepcopy()
            for hk in (h_, h_ + 3, max(1, h_ - 1)):
                if kind in ("image", "image-pil"):
                    o2 = Image.from_array(np.zeros((hk, w_), dtype=np.float32), wcs=shared, default_format="fits")
                else:
                    o2 = ImageDescription(mode=ImageMode.F32, shape=(hk, w_), wcs=shared)
                y2, x2 = np.mgrid[0:hk, 0:w_]
                rb, db = world(wcs, x2.ravel(), y2.ravel())
                o2.flip_parity()
                ra_, da_ = world(o2.wcs, x2.ravel(), (hk - 1 - y2).ravel())
                okk = np.isfinite(rb) & np.isfinite(ra_)
                if okk.any() and sep_deg(rb[okk], db[okk], ra_[okk], da_[okk]).max() > TOL:
                    bad("shared-wcs-different-heights", "of several objects built on one WCS instance, the one of height %d (others %d) moved by %.3g deg when flipped" % (hk, h_, sep_deg(rb[okk], db[okk], ra_[okk], da_[okk]).max()))
                    break
        except Exception as e:
            bad("raises:%s" % type(e).__name__, repr(e))
    part.sample(cfg)
    return part


def run(tier, seed):
    rep = Report(PROP, tier, seed, "exploration")
    projs = ["TAN"] if tier == "quick" else ["TAN", "SIN", "CAR"]
    thetas = [0, 17, 45, 90, 135, 180, 250]
    scales = [(0.5 / 3600, 0.5 / 3600), (1 / 60.0, 1.2 / 60.0), (0.3, 0.3)]
    skews = [0.0, 0.1]
    crpix_kinds = ["centre", "corner", "outside-a", "outside-b"]
    crvals = [(0.0, 0.0), (359.9, 40.0), (120.0, -89.0)]
    sizes = [(1, 1), (2, 3), (5, 4), (64, 48)] + ([(3, 100), (128, 96)] if tier == "thorough" else [])
    if tier == "thorough":
        thetas = thetas + [1, 89, 271, 315, 359]
        crvals = crvals + [(180.0, 89.9), (0.05, -45.0)]
    rep.rule = (
        "projection %r x rotation %r x 3 scales x skew %r x both parities x 4 reference-pixel placements x 3 reference values x sizes %r x "
        "{Image, ImageDescription}, plus a thinned copy of the lattice with latitude-first world axes, triangular and quarter-turn matrices with exact zeros in CD and CDELT+PC form, and non-default LONPOLE/LATPOLE; one WCS instance shared by objects of three heights, each flipped; every pixel of every image compared; non-trivial = rotated, skewed or off-centre reference pixel"
        % (projs, thetas, skews, sizes)
    )
    rep.assumptions = ["linear WCS only (no SIP/TPV distortion terms)", "sky positions compared as angular separation to a thousandth of a pixel (at most 1e-9 degree)"]
    cases = []
    for proj, th, sc, sk, par_, ck, cv, sz in itertools.product(projs, thetas, scales, skews, (-1, 1), crpix_kinds, crvals, sizes):
        if proj == "SIN" and sc[0] > 0.1 and ck.startswith("outside"):
            continue  # outside the hemisphere a SIN projection can represent
        if tier == "quick" and sz == (64, 48) and (th not in (0, 45, 250) or ck == "outside-b"):
            continue
        for kind in ("image", "description", "description-rgb", "image-pil"):
            if kind == "description-rgb" and (sz[0] == sz[1] or sk != 0.0):
                continue
            if kind == "image-pil" and (sk != 0.0 or sz == (64, 48) or ck != "centre"):
                continue
            cases.append((proj, th, sc, sk, par_, ck, cv, sz, kind))
    # exactly-zero matrix entries (quarter turns written as 0/+-1, a shear with a zero diagonal), as CD and as CDELT+PC
    for proj, th, sc, form, par_, cv, sz, kind in itertools.product(projs[:1], sorted(EXACT), scales, (0.0, 1.0), (-1, 1), crvals[:2], [(2, 3), (5, 4)], ("image", "description")):
        cases.append((proj, th, sc, form, par_, "centre", cv, sz, kind))
    # a WCS carrying a foreign array size; pixel scales down to a tenth of a milli-arcsecond (the determinant of
    # the matrix, which decides the parity, scales with the square of the pixel size)
    for th, sc, par_, cv, sz, kind in itertools.product(thetas[::2], scales[:2] + [(3e-8, 3e-8)], (-1, 1), crvals[:2], [(5, 4), (2, 3)], ("image", "description")):
        cases.append((projs[0], th, sc, 0.0, par_, "foreign-naxis", cv, sz, kind))
    for th, sk, par_, ck, cv, sz, kind in itertools.product(thetas, skews, (-1, 1), crpix_kinds[:2], crvals[:2], [(5, 4), (64, 48)], ("image", "description")):
        for sc in ((3e-8, 3e-8), (2e-9, 3e-9)):
            if sz == (64, 48) and (th not in (0, 45) or kind != "image"):
                continue
            cases.append((projs[0], th, sc, sk, par_, ck, cv, sz, kind))
    # latitude-first axis order (CTYPE1 = DEC--, CTYPE2 = RA---): the same lattice, thinned
    for proj, th, sc, sk, par_, ck, cv, sz in itertools.product(projs[:1], thetas[:: (1 if tier == "thorough" else 2)], scales[:2], skews, (-1, 1), crpix_kinds[:3], crvals, sizes[1:3]):
        for kind in ("image", "description"):
            cases.append((proj + "-LATFIRST", th, sc, sk, par_, ck, cv, sz, kind))
    for th, form, par_ in itertools.product(sorted(EXACT), (0.0, 1.0), (-1, 1)):
        cases.append(("TAN-LATFIRST", th, scales[1], form, par_, "centre", crvals[1], (5, 4), "image"))
    # non-default LONPOLE/LATPOLE (the orientation of the native system is part of the mapping)
    # (zenithal projections only: for a cylindrical one these pole parameters have no valid solution)
    for proj, th, par_, ck, cv, sz, kind in itertools.product([p_ for p_ in projs if p_ in ("TAN", "SIN")], thetas[::2], (-1, 1), crpix_kinds[:2], crvals[:2], [(5, 4), (2, 3)], ("image", "description")):
        cases.append((proj + "-POLE", th, scales[1], 0.0, par_, ck, cv, sz, kind))
    n = par.ncores() * 2
    par.pmap(case, [cases[i::n] for i in range(n)], rep)
    return rep.finish()


def replay(payload):
    r = payload["replay"]
    p = case([(r["proj"], r["theta"], tuple(r["scale"]), r["skew"], r["parity_in"], r["crpix"], tuple(r["crval"]), tuple(r["size"]), r["kind"])])
    for sig, (detail, _) in p.violations.items():
        print("REPLAY-FAIL", sig, detail[:300])
    return 1 if p.violations else 0
