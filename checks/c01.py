"""C01 -- cascade walk: each live parent exactly once, only after all its live children.

E1: every interleaving of the real `_walk_parallel` / `_mp_walk_worker` over the virtual
multiprocessing layer, for small pyramids (generic, TOAST-filtered incl. accepted-but-
childless tiles, sub-pyramid apexes, 1-3 workers).
E2: bounded-exhaustive enumeration of (pyramid kind, depth, effective filter, apex) through
the serial walk and -- on two fixed schedules -- through the parallel dispatcher's
pre-dispatch bookkeeping, against the reference quadtree.
"""
import itertools

from vt import par, stages, vmp
from vt.explore import Execution
from vt.fixtures import quiet, rng_order
from vt.harness import Part, Report
from vt.ref import quadtree

PROP = "C01"

L1 = [(1, 0, 0), (1, 1, 0), (1, 0, 1), (1, 1, 1)]


def l1_options(t):
    """17 effective options for one level-1 tile of a depth-2 pyramid: rejected, or
    accepted with any subset of its four children."""
    kids = quadtree.children(t)
    opts = [None]
    for mask in range(16):
        opts.append([t] + [tuple(kids[i]) for i in range(4) if mask >> i & 1])
    return opts


def filter_from(choice):
    acc = []
    for c in choice:
        if c is not None:
            acc += [tuple(x) for x in c]
    return acc


def family51():
    """{tile A: any of its 17 options} x {tile B: rejected | all children | accepted-but-no-children}."""
    out = []
    for a in l1_options(L1[0]):
        for b in (None, l1_options(L1[3])[16], l1_options(L1[3])[1]):
            out.append(filter_from([a, b]))
    return out


def all_apexes(depth):
    return [tuple(p) for p in quadtree.all_positions(depth)]


# --- E1 configurations -----------------------------------------------------------------


def e1_configs(tier):
    W = stages.Walk
    cfgs = [
        W(kind="generic", depth=1, W=1),
        # one worker, four parents ready at once: more completion reports than the bounded queue of reports holds
        W(kind="generic", depth=2, W=1),
        W(kind="generic", depth=1, W=2),
        W(kind="generic", depth=1, W=3),
        W(kind="generic", depth=2, W=2, apex=(1, 1, 0)),
        W(kind="generic", depth=2, W=2, apex=(2, 3, 1)),
        W(kind="generic", depth=3, W=2, apex=(2, 1, 2)),
        W(kind="toast", depth=1, W=2),
    ]
    for f in family51():
        cfgs.append(W(kind="filtered", depth=2, W=2, accepted=f))
    # callbacks that take time (a scheduling point between start and end of each callback): a parent whose
    # callback overlaps a child's is only visible this way
    for f in family51()[3::6]:
        cfgs.append(W(kind="filtered", depth=2, W=2, accepted=f, with_pause=True))
    cfgs.append(W(kind="filtered", depth=2, W=2, accepted=stages.FalsyAccepted(tuple(a) for a in family51()[20])))
    cfgs.append(W(kind="filtered", depth=2, W=2, accepted=family51()[20], apex=(1, 0, 0)))
    cfgs.append(W(kind="filtered", depth=2, W=2, accepted=family51()[20], apex=(1, 1, 1)))
    cfgs.append(W(kind="filtered", depth=2, W=2, accepted=family51()[20], apex=(1, 1, 0)))
    # three live level-1 parents plus the root (every bit position of the root's readiness mask in use)
    three = filter_from([l1_options(L1[0])[16], l1_options(L1[1])[3], l1_options(L1[2])[9]])
    cfgs.append(W(kind="filtered", depth=2, W=2, accepted=three))
    # a history in one process: a walk over a sparse filtered pyramid, then a deeper walk whose parent
    # (1,0,0) has live children where the first walk had filtered-out leaves
    cfgs.append(
        stages.WalkTwice(
            kind="filtered", depth=3, W=2, accepted=[(1, 0, 0), (2, 0, 0), (3, 0, 0), (2, 1, 1), (3, 2, 2)],
            first_depth=2, first_accepted=[(1, 0, 0), (2, 0, 0)], **({"max_deviations": 4} if tier == "quick" else {})
        )
    )
    # the same kind of history with a parent that has FOUR live children in the second walk (only then is
    # no fresh readiness entry written for it) and callbacks that take time; the full graph has > 17 000
    # states, so quick explores every schedule within 3 departures from the default order, thorough all
    four = [(1, 0, 0), (2, 0, 0), (1, 1, 0), (2, 2, 0), (1, 0, 1), (2, 0, 2), (1, 1, 1), (2, 2, 2)]
    if tier == "quick":
        cfgs.append(stages.WalkTwice(kind="filtered", depth=2, W=2, accepted=four, first_depth=1, first_accepted=[(1, 0, 0)], with_pause=True, max_deviations=3))
    else:
        cfgs.append(stages.WalkTwice(kind="filtered", depth=2, W=2, accepted=four, first_depth=1, first_accepted=[(1, 0, 0)], with_pause=True, max_deviations=6))
        cfgs.append(stages.WalkTwice(kind="filtered", depth=2, W=2, accepted=four, first_depth=1, first_accepted=[(1, 0, 0)], with_pause=True))
    # deep pyramids (toasty's "big pyramid" code paths start at depth 9/10), restricted to an apex just above
    # the leaves so that the walk stays small
    for d in (8, 9, 10, 11):
        cfgs.append(W(kind="generic", depth=d, W=2, apex=(d - 1, 2 ** (d - 2) + 1, 3)))
    cfgs.append(W(kind="toast", depth=9, W=2, apex=(8, 5, 9)))
    cfgs.append(W(kind="toast", depth=10, W=2, apex=(9, 500, 9), coordsys="planetary"))
    if tier == "thorough":
        cfgs.append(W(kind="generic", depth=9, W=2, apex=(7, 5, 9)))
        cfgs.append(W(kind="generic", depth=10, W=2, apex=(8, 5, 9), max_deviations=4))
    # a WIDE pyramid (16 384 tiles ready before any worker exists; 21 845 callbacks): the default schedule only,
    # cut after 40 000 steps in the quick tier (the whole seeding phase and the first few hundred callbacks)
    if tier == "quick":
        cfgs.append(W(kind="generic", depth=8, W=2, max_deviations=0, horizon_steps=40000))
    else:
        cfgs.append(W(kind="generic", depth=8, W=2, max_deviations=0))
        cfgs.append(W(kind="generic", depth=9, W=3, max_deviations=0, horizon_steps=150000))
    if tier == "quick":
        # the complete depth-2 pyramid (21 callbacks; 47 000 states unbounded, thorough tier) within a deviation bound
        cfgs.append(W(kind="generic", depth=2, W=2, with_pause=True, max_deviations=3))
        cfgs.append(W(kind="generic", depth=2, W=3, max_deviations=2))
    # the calling process already owns an unrelated idle child process (dead-worker detection that counts
    # the process's children must not misfire)
    cfgs.append(W(kind="filtered", depth=2, W=2, accepted=three, foreign_child=True, **({"max_deviations": 4} if tier == "quick" else {})))
    if tier == "thorough":
        cfgs += [
            W(kind="generic", depth=2, W=2),
            W(kind="generic", depth=2, W=3),
            W(kind="generic", depth=2, W=2, pipe_capacity=1),
            W(kind="generic", depth=2, W=2, with_pause=True),
            W(kind="generic", depth=1, W=3, contended_timeouts=True),
            W(kind="filtered", depth=2, W=2, accepted=family51()[20], contended_timeouts=True),
            W(kind="toast", depth=2, W=2, coordsys="planetary"),
            W(kind="generic", depth=3, W=2, apex=(1, 0, 1)),
        ]
        # depth-3 chains: one accepted path with a few live parents
        chain = [(1, 0, 0), (2, 1, 1), (3, 2, 2), (3, 3, 3), (2, 0, 1), (3, 0, 2)]
        for apex in [(0, 0, 0), (1, 0, 0), (2, 1, 1), (3, 2, 2)]:
            cfgs.append(W(kind="filtered", depth=3, W=2, accepted=chain, apex=apex))
        for f in family51()[::5]:
            cfgs.append(W(kind="filtered", depth=2, W=3, accepted=f))
    return cfgs


def _e1(cfg):
    return stages.explore_to_part(cfg, PROP)


# --- E2: serial walk + fixed-schedule parallel bookkeeping --------------------------------


def serial_case(kind, depth, accepted, apex, coordsys, part, parallel_fixed):
    model = stages.ref_model(kind, depth, accepted, apex)
    exp = [tuple(p) for p in model.ops]
    cfg = {"kind": kind, "depth": depth, "accepted": accepted, "apex": apex, "coordsys": coordsys}
    childless = False
    if accepted is not None:
        acc = set(accepted)
        childless = any(t[0] < depth and not any(tuple(c) in acc for c in quadtree.children(t)) for t in acc)
    part.case(nontrivial=bool(exp) and (apex != (0, 0, 0) or childless or kind == "generic"), key=None)
    if childless:
        part.count("filters_with_accepted_but_childless_tile")
    calls = []
    try:
        pyr = stages.make_pyramid(kind, depth, accepted, apex, coordsys)
        with quiet():
            pyr.walk(lambda pos: calls.append(tuple(pos)), parallel=1)
    except Exception as e:
        part.violation("serial/raises:%s/%s" % (type(e).__name__, kind), "%r: %r" % (cfg, e), cfg)
        return
    msg = order_check(calls, exp, model)
    if msg:
        part.violation("serial/%s/%s" % (msg[0], kind), "%r: %s" % (cfg, msg[1]), cfg)
    if apex != (0, 0, 0) and depth <= 3:
        # the documented `depth` attribute changed on the restricted instance: walked as a pyramid one level deeper
        m2 = stages.ref_model(kind, depth + 1, accepted, apex)
        calls2 = []
        try:
            pyr.depth = depth + 1
            with quiet():
                pyr.walk(lambda pos: calls2.append(tuple(pos)), parallel=1)
            msg2 = order_check(calls2, [tuple(p) for p in m2.ops], m2)
            if msg2:
                part.violation("serial/depth-changed-after-subpyramid/%s/%s" % (msg2[0], kind), "%r then depth = %d: %s" % (cfg, depth + 1, msg2[1]), cfg)
        except Exception as e:
            part.violation("serial/depth-changed-after-subpyramid/raises:%s/%s" % (type(e).__name__, kind), "%r: %r" % (cfg, e), cfg)
    if parallel_fixed and exp:
        for mode in ("first", "last"):
            h = stages.Walk(kind=kind, depth=depth, W=2, accepted=accepted, apex=apex, coordsys=coordsys)
            v = fixed_schedule(h, mode)
            part.executions += 1
            part.count("fixed_schedule_parallel_runs")
            for sig, detail in v:
                part.violation("walk-fixed-schedule/%s" % sig, "%r schedule=%s: %s" % (cfg, mode, detail), dict(cfg, schedule_mode=mode))


def order_check(calls, exp, model):
    if sorted(calls) != sorted(exp):
        missing = sorted(set(exp) - set(calls))
        extra = sorted(set(calls) - set(exp))
        dup = sorted(set(c for c in calls if calls.count(c) > 1))
        if dup:
            return ("callback-twice", "callbacks repeated for %r" % (dup[:3],))
        if extra:
            return ("callback-for-non-live-or-out-of-scope-tile", "callbacks for %r; expected set has %d tiles" % (extra[:3], len(exp)))
        return ("live-parent-not-visited", "no callback for live tiles %r" % (missing[:3],))
    idx = {c: i for i, c in enumerate(calls)}
    for p, kids in model.live_children.items():
        for c in kids:
            if c[0] < model.depth and idx[tuple(c)] > idx[tuple(p)]:
                return ("parent-before-child", "%r called before its live child %r" % (tuple(p), tuple(c)))
    return None


def fixed_schedule(h, mode, horizon=20000):
    ex = Execution(h)
    try:
        n = 0
        while not ex.main_finished():
            v = ex.step_violations()
            if v:
                return v
            acts = ex.sched.enabled()
            if not acts:
                return [("deadlock", "no enabled action after %d steps" % n)]
            if mode == "first":
                a = acts[0]
            else:
                nt = [x for x in acts if x.kind != "timeout"]
                a = nt[-1] if nt else acts[-1]
            ex.sched.execute(a)
            n += 1
            if n > horizon:
                return [("no-termination-within-horizon", "%d steps" % n)]
        v = ex.step_violations()
        vs, _ = h.at_terminal(ex.sched, ex.monitor)
        return v + vs
    finally:
        ex.close()


def e2_cases(tier):
    cases = []
    # generic pyramids: every apex
    dmax = 4 if tier == "quick" else 5
    for depth in range(0, dmax + 1):
        if depth <= 3:
            apexes = all_apexes(depth)
        else:
            apexes = [(0, 0, 0)]
            for n in range(1, depth + 1):
                m = 2**n - 1
                apexes += [(n, 0, 0), (n, m, 0), (n, 0, m), (n, m, m), (n, m // 2, m // 2 + 1)]
        for a in apexes:
            cases.append(("generic", depth, None, a, None, depth <= 2))
    # unfiltered TOAST
    for depth in range(0, 4):
        for a in all_apexes(min(depth, 2)):
            cases.append(("toast", depth, None, a, None, depth <= 2 and depth >= 1))
    if tier == "thorough":
        for depth in range(0, 3):
            cases.append(("toast", depth, None, (0, 0, 0), "planetary", depth >= 1))
    # depth-1 filters: 16
    for mask in range(16):
        acc = [L1[i] for i in range(4) if mask >> i & 1]
        for a in all_apexes(1):
            cases.append(("filtered", 1, acc, a, None, True))
    # depth-2 filters: all 17^4 with apex (0,0,0)
    opts = [l1_options(t) for t in L1]
    for choice in itertools.product(*opts):
        acc = filter_from(choice)
        naccepted_l1 = sum(1 for c in choice if c is not None)
        fixed = naccepted_l1 <= 2 if tier == "quick" else True
        cases.append(("filtered", 2, acc, (0, 0, 0), None, fixed))
    # the 51-family with every apex
    for f in family51():
        for a in all_apexes(2):
            if a != (0, 0, 0):
                cases.append(("filtered", 2, f, a, None, tier == "thorough"))
    # filters that are NOT monotone along the path to the apex: an ancestor of the apex is rejected although the
    # apex and its descendants would be accepted (the full pyramid then has nothing below the apex)
    for f in family51()[:: (1 if tier == "thorough" else 3)]:
        fl = [tuple(a) for a in f]
        for a in fl:
            if a[0] == 2 and (1, a[1] // 2, a[2] // 2) in fl:
                cases.append(("filtered", 2, [q for q in fl if q != (1, a[1] // 2, a[2] // 2)], a, None, True))
                break
    # the filter given as a callable object whose truth value is False
    for f in family51()[2::7]:
        cases.append(("filtered", 2, stages.FalsyAccepted(tuple(a) for a in f), (0, 0, 0), None, True))
        cases.append(("filtered", 2, stages.FalsyAccepted(tuple(a) for a in f), (1, 0, 0), "planetary", False))
    chain = [(1, 0, 0), (2, 1, 1), (3, 2, 2), (3, 3, 3), (2, 0, 1), (3, 0, 2)]
    for drop, apex in (((1, 0, 0), (2, 1, 1)), ((2, 1, 1), (3, 2, 2)), ((1, 0, 0), (3, 3, 3)), ((2, 0, 1), (3, 0, 2))):
        for cs in (None, "planetary"):
            cases.append(("filtered", 3, [q for q in chain if q != drop], apex, cs, True))
    if tier == "thorough":
        # depth 3: all filters supported inside one level-1 quadrant (see also e2_extra_cases)
        q = (1, 1, 0)
        l2 = [tuple(c) for c in quadtree.children(q)]
        l2opts = []
        for t in l2:
            kids = quadtree.children(t)
            o = [None]
            for mask in range(16):
                o.append([t] + [tuple(kids[i]) for i in range(4) if mask >> i & 1])
            l2opts.append(o)
        cases.append(("filtered", 3, [], (0, 0, 0), None, False))
        for choice in itertools.product(*l2opts):
            acc = [q] + filter_from(choice)
            cases.append(("filtered", 3, acc, (0, 0, 0), None, False))
        for f in family51():
            for a in all_apexes(2):
                cases.append(("filtered", 2, f, a, "planetary", False))
    return cases


def _e2(chunk):
    part = Part()
    for i, (kind, depth, acc, apex, cs, fixed) in enumerate(chunk):
        serial_case(kind, depth, acc, apex, cs, part, fixed)
        if i in (5, 500):
            part.sample({"kind": kind, "depth": depth, "accepted": acc, "apex": apex})
    return part


def run(tier, seed):
    rep = Report(PROP, tier, seed, "model_checking")
    rep.rule = (
        "E1: stateful exhaustive exploration of all interleavings of the real parallel walk per configuration "
        "(states = distinct canonical states; executions = runs of the implementation). E2: every (kind, depth, "
        "effective filter, apex) case through the serial walk (and two fixed schedules of the parallel walk); "
        "non-trivial = has work to do and a sub-pyramid apex, a generic pyramid or an accepted-but-childless tile"
    )
    rep.assumptions = stages.ASSUMPTIONS + ["more than 3 workers and pyramids with more than ~21 simultaneously live parents are outside the explored bound"]
    cfgs = e1_configs(tier)
    for c in cfgs:
        c.seed = seed
    # biggest configurations first so that the pool is balanced
    cfgs.sort(key=lambda c: -(c.depth * 10 + c.W + (5 if c.kind == "generic" else 0)))
    cases = rng_order(e2_cases(tier), seed)
    n = par.ncores() * 4
    chunks = [cases[i::n] for i in range(n)]
    jobs = [("e1", c) for c in cfgs[:4]] + [("e2", ch) for ch in chunks[: n // 2]] + [("e1", c) for c in cfgs[4:]] + [("e2", ch) for ch in chunks[n // 2 :]]
    par.pmap(_job, jobs, rep)
    stages.finish_model_report(rep)
    return rep.finish()


def _job(j):
    return _e1(j[1]) if j[0] == "e1" else _e2(j[1])


def replay(payload):
    r = payload["replay"]
    if "schedule" in r and "harness" in r:
        return stages.replay(payload)
    part = Part()
    acc = r.get("accepted")
    if acc is not None:
        acc = [tuple(a) for a in acc]
    serial_case(r["kind"], r["depth"], acc, tuple(r["apex"]), r.get("coordsys"), part, True)
    for sig, (detail, _) in part.violations.items():
        print("REPLAY-FAIL", sig, detail)
    return 1 if part.violations else 0


def e2_extra_cases():
    """Thorough-only additions used by C13: depth-3 filters inside each of the other three level-1
    quadrants, and every depth-2 filter in the planetary system."""
    cases = []
    for q in [(1, 0, 0), (1, 0, 1), (1, 1, 1)]:
        l2 = [tuple(c) for c in quadtree.children(q)]
        l2opts = []
        for t in l2:
            kids = quadtree.children(t)
            o = [None]
            for mask in range(16):
                o.append([t] + [tuple(kids[i]) for i in range(4) if mask >> i & 1])
            l2opts.append(o)
        for choice in itertools.product(*l2opts):
            cases.append(("filtered", 3, [q] + filter_from(choice), (0, 0, 0), None, False))
    opts = [l1_options(t) for t in L1]
    for choice in itertools.product(*opts):
        cases.append(("filtered", 2, filter_from(choice), (0, 0, 0), "planetary", False))
    return cases
