#!/bin/bash
# Offline setup: nothing to fetch. Verifies the interpreter, rebuilds the compiled helper if
# its generated C changed, and runs the framework self-tests (virtual-vs-real multiprocessing
# conformance) when present.
set -e
cd "$(dirname "$0")"
export PYTHONHASHSEED=0 PYTHONDONTWRITEBYTECODE=1
/venv/bin/python -c "import sys; sys.path.insert(0,'.'); from vt import build; build.ensure_built(); build.activate_repo(); import toasty, numpy, astropy; print('setup ok: toasty from', toasty.__file__)"
if [ -f selftest/run_all.py ]; then /venv/bin/python -W ignore selftest/run_all.py; fi
